"""Typestate / ordering analyses over the abstract event traces of the
mixins' structural entry points (shared by C01, C02, C03, C16)."""

from . import tables as T
from .events import NONE, format_trace, label, traces_for

MAY_RAISE = ("HOOK", "UNKNOWNCALL", "RAISE", "USERITER", "REENTER", "RERAISE")
PRE = {"_pre_detach": "detach", "_pre_attach": "attach"}
POST = {"_post_detach": "detach", "_post_attach": "attach"}


class Step:
    """One link change: the adjacent pair (children-list write, parent-field write)."""

    def __init__(self, kind, x, p, i, j, wl, wp):
        self.kind = kind  # detach | attach
        self.x = x  # node whose parent field changes
        self.p = p  # parent whose list changes
        self.i, self.j = i, j  # event indices of the pair
        self.wl, self.wp = wl, wp

    def __repr__(self):
        return "<%s %s %s>" % (self.kind, label(self.x), label(self.p))


class Problem:
    def __init__(self, rule, event, why, construct=None):
        self.rule = rule
        self.event = event
        self.why = why
        self.construct = construct


def _cur_parent(store, x):
    if (x, "parent") in store:
        return store[(x, "parent")]
    if x[0] == "elem" and x[1][0] == "snapshot" and x[1][2] == 0:
        return x[1][1]
    return ("parent_of", x)


def _cur_list(store, r):
    return store.get((r, "children"), ("children0", r))


def extract_steps(trace):
    """Pair up link writes; returns (steps, problems).  Problems are W2/W3/
    W4/E4 violations: unpaired write, may-raise event between the pair, wrong
    roles, list operation that is not remove-by-identity / append."""
    steps, problems = [], []
    store = {}
    n = len(trace)
    i = 0
    used = set()
    writes = [k for k, ev in enumerate(trace) if ev.kind == "WRITE"]
    pos = 0
    while pos < len(writes):
        i = writes[pos]
        w1 = trace[i]
        w2 = None
        j = None
        if pos + 1 < len(writes):
            j = writes[pos + 1]
            between = [ev for ev in trace[i + 1:j] if ev.kind in MAY_RAISE or ev.kind in ("EXIT", "EXITRAISE", "ENTER")
                       and False]
            cand = trace[j]
            if cand.field != w1.field and cand.frame == w1.frame:
                w2 = cand
        if w2 is None:
            problems.append(Problem("W2", w1, "link write is not one half of an adjacent (children list, parent field) "
                                    "pair in the same function: the two directions of the link can disagree",
                                    construct="%s [%s.%s]" % (w1.stmt_text(), label(w1.recv), w1.field)))
            _apply(store, w1)
            pos += 1
            continue
        mid = [ev for ev in trace[i + 1:j] if ev.kind in MAY_RAISE or (ev.kind == "ENTER" and ev.func.kind in ("getter", "method", "static"))]
        if mid:
            problems.append(Problem("W2", mid[0], "a call / member access that can fail is evaluated between the two writes of a link "
                                    "change (%s … %s): an exception there (a hook, or an AttributeError on a node of the other mixin "
                                    "family) leaves the two directions inconsistent" % (
                                        w1.stmt_text(), w2.stmt_text()),
                                    construct="%s between [%s] and [%s]" % (mid[0].stmt_text(), w1.stmt_text(), w2.stmt_text())))
        wl, wp = (w1, w2) if w1.field == "children" else (w2, w1)
        x, p = wp.recv, wl.recv
        # the raw list used for the write must have been read after the last piece of user code:
        # a hook that edits the parent's children replaces the list object, so an alias taken
        # before the hook is stale and the node is appended to / removed from a dead list
        k_read = None
        for k in range(min(i, j) - 1, -1, -1):
            ev = trace[k]
            if ev.kind == "LISTREAD" and ev.recv == p:
                k_read = k
                break
            if ev.kind == "WRITE" and ev.field == "children" and ev.recv == p:
                break
        if k_read is not None:
            stale = [ev for ev in trace[k_read + 1:min(i, j)] if ev.kind in ("HOOK", "UNKNOWNCALL", "REENTER", "USERITER")]
            if stale:
                problems.append(Problem("W2", stale[0], "user code (%s) runs between reading the parent's children list and the link "
                                        "write that uses it: if it changes that parent's children the write goes to a stale list and "
                                        "the two directions of the link disagree" % stale[0].brief(),
                                        construct="%s between list read and [%s]" % (stale[0].stmt_text(), wl.stmt_text())))
        val = wl.value
        before = _cur_list(store, p)
        kind = None
        if val[0] == "without" and wp.value == NONE:
            kind = "detach"
            if val[2] != x:
                problems.append(Problem("W3", wl, "detach removes %s from the list but clears the parent field of %s" % (
                    label(val[2]), label(x)), construct="%s [removed %s, cleared %s]" % (wl.stmt_text(), label(val[2]), label(x))))
            if val[1] != before:
                problems.append(Problem("W3", wl, "rebuilt list is not derived from the current list of %s" % label(p),
                                        construct="%s [base %s]" % (wl.stmt_text(), label(val[1]))))
            cp = _cur_parent(store, x)
            if cp != p:
                problems.append(Problem("W4", wl, "detach edits the list of %s but the node's stored parent is %s" % (
                    label(p), label(cp)), construct="%s [list of %s, stored parent %s]" % (wl.stmt_text(), label(p), label(cp))))
        elif val[0] == "append" and wp.value != NONE:
            kind = "attach"
            if val[2] != x:
                problems.append(Problem("W3", wl, "attach appends %s but sets the parent field of %s" % (
                    label(val[2]), label(x)), construct="%s [appended %s, set %s]" % (wl.stmt_text(), label(val[2]), label(x))))
            if wp.value != p:
                problems.append(Problem("W3", wp, "attach appends to the list of %s but stores parent %s" % (
                    label(p), label(wp.value)), construct="%s [list of %s, parent %s]" % (wp.stmt_text(), label(p), label(wp.value))))
            if val[1] != before:
                problems.append(Problem("W3", wl, "appended list is not the current list of %s" % label(p),
                                        construct="%s [base %s]" % (wl.stmt_text(), label(val[1]))))
            cp = _cur_parent(store, x)
            if cp != NONE and cp[0] != "parent_of" or (cp[0] == "parent_of" and False):
                problems.append(Problem("W4", wl, "attach while the node still has stored parent %s: two parents at a time" % label(cp),
                                        construct="%s [stored parent %s]" % (wl.stmt_text(), label(cp))))
        else:
            problems.append(Problem("E4", wl, "children list is edited by %s, not by identity-based removal or append-at-end: "
                                    "sibling order / identity is not preserved" % label(val),
                                    construct="%s [%s]" % (wl.stmt_text(), val[0])))
        _apply(store, w1)
        _apply(store, w2)
        if kind:
            steps.append(Step(kind, x, p, i, j, wl, wp))
        pos += 2
    return steps, problems


def _apply(store, w):
    store[(w.recv, w.field)] = w.value


def frame_spans(trace):
    """frame id -> (enter index, exit index, func, recv, args)"""
    spans = {}
    stack = []
    for k, ev in enumerate(trace):
        if ev.kind == "ENTER":
            spans[ev.frame] = [k, len(trace), ev.func, ev.recv, ev.args]
            stack.append(ev.frame)
        elif ev.kind in ("EXIT", "EXITRAISE"):
            if ev.frame in spans:
                spans[ev.frame][1] = k
    return spans


def setter_frames(trace, spans=None):
    spans = spans or frame_spans(trace)
    out = []
    for fid, (a, b, func, recv, args) in sorted(spans.items()):
        if (func.kind == "setter" and func.srcname == "parent") or _is_parent_assignment_body(func):
            out.append((fid, a, b, func, recv, args[0] if args else ("arg", func.posparams[1])))
    return out


_PA_CACHE = {}


def _is_parent_assignment_body(func):
    """a private method that carries the body of the parent assignment (loop check, detach, attach - in this order): the parent
    setter delegating to it, and the children setter calling it per child, are parent assignments all the same"""
    if func not in _PA_CACHE:
        import ast as _a
        ok = False
        if func.kind == "method" and func.srcname.startswith("__") and not func.srcname.endswith("__"):
            calls = [c.func.attr for c in _a.walk(func.node) if isinstance(c, _a.Call) and isinstance(c.func, _a.Attribute)
                     and c.func.attr in ("__check_loop", "__detach", "__attach")]
            ok = calls == ["__check_loop", "__detach", "__attach"]
        _PA_CACHE[func] = ok
    return _PA_CACHE[func]


def entry_value_role(func):
    return ("arg", func.posparams[1]) if len(func.posparams) > 1 else None


class MixinAnalysis:
    """All traces of one mixin plus the derived steps; rule methods return
    (instances, problems)."""

    def __init__(self, program, clsname, unroll):
        self.p = program
        self.clsname = clsname
        self.unroll = unroll
        self.entries, self.stats = traces_for(program, clsname, unroll)
        self.analysed = {}
        for name, (func, res, it) in self.entries.items():
            rows = []
            for trace, outcome, st in res:
                steps, probs = extract_steps(trace)
                rows.append((trace, outcome, steps, probs))
            self.analysed[name] = (func, rows)

    def n_traces(self):
        return sum(len(rows) for _, rows in self.analysed.values())

    def all_rows(self):
        for name, (func, rows) in self.analysed.items():
            for r in rows:
                yield (name, func) + r

    # ---------------------------------------------------------------- C01
    def pair_problems(self, rules):
        out = {}
        n = 0
        for name, func, trace, outcome, steps, probs in self.all_rows():
            n += len(steps)
            for pr in probs:
                if pr.rule in rules:
                    out.setdefault((pr.rule, pr.event.func.where, pr.construct), (pr, name, trace))
        return n, list(out.values())

    def loopcheck_problems(self):
        """W5: before the first link write of a parent assignment that attaches
        to Q, the path has tested `X is Q` and scanned Q's ancestor chain for X."""
        out = {}
        n = 0
        for name, func, trace, outcome, steps, probs in self.all_rows():
            spans = frame_spans(trace)
            for fid, a, b, f, x, q in _setter_frames_with_entry(trace, spans, func):
                att = [s for s in steps if s.kind == "attach" and a < s.i < b and s.x == x]
                if not att:
                    continue
                first_write = min([s.i for s in steps if a < s.i < b] or [b])
                n += 1
                pre = trace[a:first_write]
                same_tested = any(ev.kind == "GUARD" and ev.name == "is" and {ev.a, ev.b} == {x, q} and ev.outcome is False
                                  for ev in pre)
                scan = any(ev.kind == "GUARD" and ev.name == "ancestor-scan" and ev.a == x and ev.outcome is False
                           and (ev.b in (("chain", q), ("tuple", ("chain", q)), ("copy", ("chain", q)))
                                or (same_tested and ev.b == ("properchain", q))) for ev in pre)
                # (a tuple of the chain taken earlier in the same call is the same chain: attaching below q does not change q's ancestors)
                loop_scan = False
                for ev in pre:
                    if ev.kind == "LOOPEND" and ev.a == ("chain", q):
                        ks = range(ev.outcome)
                        if ks and all(any(g.kind == "GUARD" and g.name == "is" and g.outcome is False and
                                          {g.a, g.b} == {x, ("elem", ("chain", q), k)} for g in pre) for k in ks):
                            loop_scan = True
                # a node without children is nobody's proper ancestor (C01 at entry): once `x is q` is excluded no scan is needed
                leaf = same_tested and any(
                    (ev.kind == "GUARD" and ev.name == "opaque" and ev.a == ("list_of", x) and ev.outcome is False)
                    or (ev.kind == "GUARD" and ev.name == "hasattr" and ev.a == x and ev.text == "children" and ev.outcome is False)
                    or (ev.kind == "LAZYINIT" and ev.recv == x) for ev in pre)
                if leaf:
                    continue
                if not (scan or loop_scan):
                    w = trace[first_write]
                    out.setdefault(("W5", f.where, "ancestor"), (Problem(
                        "W5", w, "a link is written although no identity scan of the new parent's ancestor chain for the "
                        "node precedes it on this path: a node can become its own ancestor",
                        construct="%s [no ancestor scan before first write]" % f.qual), name, trace))
                elif not (same_tested or loop_scan):
                    w = trace[first_write]
                    out.setdefault(("W5", f.where, "self"), (Problem(
                        "W5", w, "a link is written although `node is self` was not tested on this path",
                        construct="%s [no self test before first write]" % f.qual), name, trace))
        return n, list(out.values())

    def writes_only_via_parent_setter(self):
        """W7: every link write of children.setter/deleter happens inside an
        inlined parent.setter frame."""
        out = {}
        n = 0
        for name, func, trace, outcome, steps, probs in self.all_rows():
            if name == "parent.setter":
                continue
            spans = frame_spans(trace)
            sf = setter_frames(trace, spans)
            for k, ev in enumerate(trace):
                if ev.kind != "WRITE":
                    continue
                n += 1
                if not any(a < k < b for _, a, b, _, _, _ in sf):
                    out.setdefault(("W7", ev.func.where, ev.stmt_text()), (Problem(
                        "W7", ev, "link written by %s outside a parent assignment: the invariant argument for children "
                        "assignment/deletion (composed of single parent assignments) no longer applies" % name,
                        construct=ev.stmt_text()), name, trace))
        return n, list(out.values())

    # ---------------------------------------------------------------- C02
    def noop_guard_problems(self):
        """E1: every hook / link write of a parent assignment is preceded, in
        that assignment, by an identity comparison of the stored parent with
        the new value that found them different."""
        out = {}
        n = 0
        for name, func, trace, outcome, steps, probs in self.all_rows():
            spans = frame_spans(trace)
            store = {}
            entry_parent = {}
            for k, ev in enumerate(trace):
                if ev.kind == "ENTER" and ev.func.kind == "setter" and ev.func.srcname == "parent":
                    entry_parent[ev.frame] = _cur_parent(store, ev.recv)
                if ev.kind == "WRITE":
                    _apply(store, ev)
            for fid, a, b, f, x, q in _setter_frames_with_entry(trace, spans, func):
                old = entry_parent.get(fid, ("parent_of", x))
                effects = [k for k in range(a + 1, b) if trace[k].kind in ("HOOK", "WRITE")]
                if not effects:
                    continue
                n += 1
                first = effects[0]
                pre = trace[a:first]
                ok = any(ev.kind == "GUARD" and ev.name == "is" and {ev.a, ev.b} == {old, q} and ev.outcome is False
                         for ev in pre)
                if not ok and any(ev.kind == "GUARD" and ev.name == "hasattr" and ev.a == x and ev.text == "parent"
                                  and ev.outcome is False for ev in pre):
                    # an absent parent field reads as None (optional-field idiom)
                    ok = any(ev.kind == "GUARD" and ev.name == "is" and {ev.a, ev.b} == {NONE, q} and ev.outcome is False
                             for ev in pre)
                if not ok:
                    # `if value is None: if parent is not None: <detach>`: the new value is None and the stored parent is not -
                    # the two differ, established by two tests against None instead of one against each other
                    q_none = q == NONE or any(ev.kind == "GUARD" and ev.name == "is" and {ev.a, ev.b} == {q, NONE} and ev.outcome is True for ev in pre)
                    old_set = any(ev.kind == "GUARD" and ev.name == "is" and {ev.a, ev.b} == {old, NONE} and ev.outcome is False for ev in pre)
                    ok = q_none and old_set
                if not ok:
                    ev = trace[first]
                    out.setdefault(("E1", ev.func.where, ev.stmt_text()), (Problem(
                        "E1", ev, "hook/link write reachable without the identity test `stored parent is not new parent`: "
                        "assigning the parent a node already has is no longer a no-op", construct=ev.stmt_text()), name, trace))
        return n, list(out.values())

    def refusal_before_effect(self):
        """E2: inside one parent assignment no TreeError/LoopError is raised
        after a hook or link write of that assignment; in children.setter the
        validation raises precede every hook/write of the call."""
        out = {}
        n = 0
        for name, func, trace, outcome, steps, probs in self.all_rows():
            spans = frame_spans(trace)
            for fid, a, b, f, x, q in _setter_frames_with_entry(trace, spans, func):
                seen_effect = None
                for k in range(a + 1, min(b + 1, len(trace))):
                    ev = trace[k]
                    if ev.kind in ("HOOK", "WRITE") and seen_effect is None:
                        seen_effect = ev
                    if ev.kind == "RAISE" and ev.exc in ("TreeError", "LoopError"):
                        n += 1
                        if seen_effect is not None:
                            out.setdefault(("E2", ev.func.where, ev.stmt_text()), (Problem(
                                "E2", ev, "refusal (%s) raised after an effect of the same parent assignment (%s)" % (
                                    ev.exc, seen_effect.brief()),
                                construct="%s after %s" % (ev.stmt_text(), seen_effect.stmt_text())), name, trace))
            if name == "children.setter":
                top = trace[0].frame
                seen_effect = None
                for ev in trace:
                    if ev.kind in ("HOOK", "WRITE") and seen_effect is None:
                        seen_effect = ev
                    if (ev.kind == "USERITER" or (ev.kind == "RAISE" and ev.exc == "TreeError" and
                                                  ev.func.srcname.endswith("check_children"))):
                        n += 1
                        if seen_effect is not None:
                            out.setdefault(("E2", ev.func.where, ev.stmt_text()), (Problem(
                                "E2", ev, "children validation happens after an effect (%s)" % seen_effect.brief(),
                                construct="%s after %s" % (ev.stmt_text(), seen_effect.stmt_text())), name, trace))
        return n, list(out.values())

    def children_assignment_order(self):
        """E5/H5 shape: in children.setter all detach steps of former children
        precede the first attach; the attach loop iterates the validated tuple
        itself, in order, assigning `elem.parent = n`."""
        out = {}
        n = 0
        func, rows = self.analysed["children.setter"]
        xs = ("tuple", ("arg", func.posparams[1]))
        nrole = ("obj", "n")
        for trace, outcome, steps, probs in rows:
            if any(ev.kind in ("REENTER", "HANDLER") for ev in trace):
                trace_main = trace[: next(k for k, ev in enumerate(trace) if ev.kind in ("REENTER", "HANDLER"))]
                steps_main = [s for s in steps if s.j < len(trace_main)]
            else:
                trace_main, steps_main = trace, steps
            att = [s for s in steps_main if s.kind == "attach"]
            if not att:
                continue
            n += 1
            first_att = att[0].i
            # detach steps of *former children* (x is an element of a snapshot of n) after the first attach
            late = [s for s in steps_main if s.kind == "detach" and s.i > first_att and s.p == nrole
                    and s.x[0] == "elem" and s.x[1][0] == "snapshot"]
            if late:
                ev = late[0].wl
                out.setdefault(("E5", ev.func.where, "late-detach"), (Problem(
                    "E5", ev, "a former child is detached after a new child was attached: former children must all be "
                    "detached before the first attach", construct="detach of former child after first attach"), "children.setter", trace))
            ks = []
            for s in att:
                if s.p != nrole:
                    out.setdefault(("E5", s.wl.func.where, "target"), (Problem(
                        "E5", s.wl, "children assignment attaches to %s, not to the node itself" % label(s.p),
                        construct="attach target %s" % label(s.p)), "children.setter", trace))
                if not (s.x[0] == "elem" and s.x[1] == xs):
                    out.setdefault(("E5", s.wl.func.where, "source:" + label(s.x)), (Problem(
                        "E5", s.wl, "attached node %s is not an element of the validated tuple iterated in the given order" % label(s.x),
                        construct="attach of %s" % label(s.x)), "children.setter", trace))
                else:
                    ks.append(s.x[2])
            if outcome[0] == "return" and trace_main is trace:
                enters = [ev for ev in trace if ev.kind == "ENTER" and ev.func.kind == "setter" and ev.func.srcname == "parent"
                          and ev.recv[0] == "elem" and ev.recv[1] == xs and ev.args and ev.args[0] == nrole]
                assigned = [ev.recv[2] for ev in enters]
                # the loop(s) that contain the assignment statement (validation loops over the same tuple do not count)
                import ast as _ast
                attach_loops = set()
                for ev in trace:
                    if ev.kind == "ITER" and ev.a == xs and ev.func is func and any(
                            any(x is en.node for x in _ast.walk(ev.node)) for en in enters):
                        attach_loops.add(id(ev.node))
                visited = [ev.outcome for ev in trace if ev.kind == "ITER" and ev.a == xs and ev.func is func and id(ev.node) in attach_loops]
                if not attach_loops:
                    visited = assigned
                if visited != assigned:
                    out.setdefault(("E5", func.where, "skipped"), (Problem(
                        "E5", att[0].wl, "not every new child visited by the attach loop is assigned `child.parent = node` "
                        "(visited %s, assigned %s): the node's children are not tuple(xs)" % (visited, assigned),
                        construct="attach loop skips children"), "children.setter", trace))
            if ks != sorted(ks) or len(set(ks)) != len(ks):
                out.setdefault(("E5", func.where, "order"), (Problem(
                    "E5", att[0].wl, "children are not attached one by one in the given order", construct="attach order"),
                    "children.setter", trace))
        return n, list(out.values())

    # ---------------------------------------------------------------- C03
    def veto_before_write(self):
        """A2: a veto-able raise (TreeError, LoopError, failing iteration of the
        argument, a _pre_* hook) that escapes the entry point must not be
        preceded by a link write that is still in effect."""
        out = {}
        n = 0
        for name, func, trace, outcome, steps, probs in self.all_rows():
            # every veto-able raise point counts as an instance, whether or not it escapes
            if outcome[0] != "raise":
                continue
            exc = outcome[1]
            origin = exc.event
            if origin is None:
                continue
            vetoable = False
            if exc.origin == "raise" and exc.cls in ("TreeError", "LoopError"):
                vetoable = True
            elif exc.origin in ("useriter", "nonnode"):
                vetoable = True
            elif exc.origin == "hook" and origin.name in T.PRE_HOOKS:
                vetoable = True
            elif exc.origin == "reenter":
                vetoable = True  # the rollback itself was vetoed / refused
            if not vetoable:
                continue
            n += 1
            idx = _index_of(trace, origin)
            writes = [ev for ev in trace[:idx] if ev.kind == "WRITE"]
            if not writes:
                continue
            handler = [ev for ev in trace if ev.kind == "REENTER"]
            if exc.origin == "reenter":
                re_ev = origin
                # what set the rollback off: a hook veto (the recorded defect) or an explicit refusal of the request that is now
                # raised only after the change has begun (validation moved behind the first write)
                k_re = _index_of(trace, re_ev)
                trig = [ev for ev in trace[:k_re] if ev.kind == "RAISE" and getattr(ev, "exc", None) in ("TreeError", "LoopError")]
                def _inside_parent_assignment(k):
                    depth_ = 0
                    for ev in trace[:k]:
                        pa_ = (ev.func.kind == "setter" and ev.func.srcname == "parent") or _is_parent_assignment_body(ev.func)
                        if ev.kind == "ENTER" and pa_:
                            depth_ += 1
                        elif ev.kind in ("EXIT", "EXITRAISE") and pa_:
                            depth_ -= 1
                    return depth_ > 0
                # (a refusal raised by the per-child `child.parent = node` in the middle of the loop is the recorded defect itself;
                # what is new is a validation of the whole request that runs only after the first write)
                if trig and any(ev.kind == "WRITE" for ev in trace[:_index_of(trace, trig[-1])]) \
                        and not _inside_parent_assignment(_index_of(trace, trig[-1])):
                    t_ev = trig[-1]
                    out.setdefault(("A2", t_ev.func.where, t_ev.stmt_text()), (Problem(
                        "A2", t_ev, "the request is refused (%s) only after links have been written; undoing that is left to a rollback that "
                        "re-enters the veto-able entry point %s and can itself be refused: an invalid request no longer leaves the forest "
                        "untouched" % (t_ev.exc, re_ev.name),
                        construct="%s: refusal %s after a link write, left to the rollback" % (func.qual, t_ev.exc)), name, trace))
                    continue
                out.setdefault(("A2ii", re_ev.func.where, re_ev.stmt_text()), (Problem(
                    "A2ii", re_ev, "the rollback re-enters the veto-able entry point %s: a persistent veto makes the "
                    "compensation itself fail (and recurse), so the forest is not restored" % re_ev.name,
                    construct="%s [rollback re-enters %s]" % (re_ev.stmt_text(), re_ev.name)), name, trace))
                continue
            if handler and _index_of(trace, handler[0]) > idx:
                # a compensation ran (and, on this trace, succeeded): which writes does it not cover?
                h = handler[0]
                restored_recv = h.recv
                val = h.args[0] if h.args else None
                if not (val is not None and val[0] == "snapshot" and val[1] == restored_recv and val[2] == 0):
                    out.setdefault(("A2i", h.func.where, "%s|value" % h.stmt_text()), (Problem(
                        "A2i", h, "the rollback assigns %s, which is not a copy of the node's children taken before the change "
                        "(it aliases the live list / was taken after a write): the former children are not restored" % label(val),
                        construct="%s [rollback value %s is not a pre-change snapshot]" % (h.stmt_text(), label(val))), name, trace))
                    continue
                leftover = []
                for w in writes:
                    if w.field == "children" and w.recv == restored_recv:
                        continue
                    if w.field == "parent" and _cur_parent_initial(w.recv) == restored_recv:
                        continue
                    if w.field == "parent" and w.recv[0] == "elem" and w.recv[1][0] == "tuple":
                        # a new child: the re-entered setter detaches it again (parent None);
                        # restored only if it had no parent before
                        pass
                    leftover.append(w)
                third = [w for w in leftover if w.field == "children"]
                if third:
                    w = third[0]
                    out.setdefault(("A2i", h.func.where, "%s|%s" % (h.stmt_text(), _role_class(w.recv))), (Problem(
                        "A2i", h, "the rollback does not restore the children list of %s written before the veto at `%s`: "
                        "a child taken from another parent stays detached" % (_role_class(w.recv), origin.stmt_text()),
                        construct="%s [does not restore list of %s]" % (h.stmt_text(), _role_class(w.recv))), name, trace))
                continue
            w = writes[0]
            key = ("A2", origin.func.where, origin.stmt_text(), w.func.where, _role_class(w.recv), func.qual)
            out.setdefault(key, (Problem(
                "A2", origin, "veto-able raise point `%s` (%s) is reached after the link write `%s` on %s with no "
                "compensation: the refused call leaves the forest changed" % (
                    origin.stmt_text(), _veto_kind(exc), w.stmt_text(), _role_class(w.recv)),
                construct="%s: veto at %s after a link write on %s" % (func.qual, _origin_label(origin), _role_class(w.recv))),
                name, trace))
        return n, list(out.values())

    # ---------------------------------------------------------------- C16
    def hook_protocol(self):
        """H1/H2/H3: around every link change pre ≺ pair ≺ post, each once,
        with the right receiver and argument; hooks nowhere else."""
        out = {}
        n = 0

        def bad(rule, ev, why, cons, name, trace):
            out.setdefault((rule, ev.func.where, cons), (Problem(rule, ev, why, construct=cons), name, trace))

        for name, func, trace, outcome, steps, probs in self.all_rows():
            step_at = {}
            for s in steps:
                step_at[s.i] = s
            skip = set(s.j for s in steps)
            state = None  # None | ("pre", kind, x, p, ev) | ("done", kind, x, p, step)
            for k, ev in enumerate(trace):
                if ev.kind == "REENTER" or ev.kind == "HANDLER":
                    state = None
                    continue
                if ev.kind == "HOOK" and ev.name in PRE:
                    n += 1
                    if state is not None and state[0] == "done":
                        bad("H1", ev, "%s called while the post hook of the previous %s step of %s is still outstanding" % (
                            ev.name, state[1], label(state[2])), "%s before post hook of previous step" % ev.stmt_text(), name, trace)
                    if state is not None and state[0] == "pre":
                        bad("H1", ev, "%s called twice / two pre hooks without a link change between them" % ev.name,
                            "%s after %s without link change" % (ev.stmt_text(), state[4].stmt_text()), name, trace)
                    state = ("pre", PRE[ev.name], ev.recv, ev.args[0] if ev.args else None, ev)
                elif ev.kind == "HOOK" and ev.name in POST:
                    n += 1
                    kind = POST[ev.name]
                    if state is None or state[0] != "done" or state[1] != kind:
                        bad("H1", ev, "%s called without a preceding %s link change" % (ev.name, kind),
                            "%s without preceding %s step" % (ev.stmt_text(), kind), name, trace)
                    else:
                        st = state[4]
                        if ev.recv != st.x:
                            bad("H1", ev, "%s called on %s but the node that moved is %s" % (ev.name, label(ev.recv), label(st.x)),
                                "%s [receiver %s]" % (ev.stmt_text(), label(ev.recv)), name, trace)
                        if not ev.args or ev.args[0] != st.p:
                            bad("H1", ev, "%s called with %s but the parent of the step is %s" % (
                                ev.name, label(ev.args[0]) if ev.args else "nothing", label(st.p)),
                                "%s [argument %s]" % (ev.stmt_text(), label(ev.args[0]) if ev.args else "-"), name, trace)
                    state = None
                elif k in step_at:
                    st = step_at[k]
                    n += 1
                    if state is None or state[0] != "pre" or state[1] != st.kind:
                        bad("H1", st.wl, "%s link change of %s without its _pre_%s hook immediately before" % (
                            st.kind, label(st.x), st.kind), "%s without _pre_%s" % (st.wl.stmt_text(), st.kind), name, trace)
                    else:
                        pre = state[4]
                        if pre.recv != st.x:
                            bad("H1", pre, "%s called on %s but the node that moves is %s" % (pre.name, label(pre.recv), label(st.x)),
                                "%s [receiver %s]" % (pre.stmt_text(), label(pre.recv)), name, trace)
                        if not pre.args or pre.args[0] != st.p:
                            bad("H1", pre, "%s called with %s but the parent of the step is %s" % (
                                pre.name, label(pre.args[0]) if pre.args else "nothing", label(st.p)),
                                "%s [argument %s]" % (pre.stmt_text(), label(pre.args[0]) if pre.args else "-"), name, trace)
                    state = ("done", st.kind, st.x, st.p, st)
                elif k in skip:
                    continue
                elif ev.kind == "WRITE":
                    state = None  # unpaired write: reported by W2
                elif ev.kind in ("UNKNOWNCALL", "USERITER") and state is not None:
                    n += 1
                    bad("H1", ev, "may-raise call between a hook and its link change (%s): the hook no longer observes the "
                        "tree immediately before/after its step" % state[0],
                        "%s inside %s step" % (ev.stmt_text(), state[1]), name, trace)
                elif ev.kind == "HOOK" and state is not None and state[0] in ("pre", "done"):
                    n += 1
                    bad("H1", ev, "%s called inside a %s step (between pre hook, link change and post hook)" % (ev.name, state[1]),
                        "%s inside %s step" % (ev.stmt_text(), state[1]), name, trace)
                elif ev.kind == "EXIT" and ev.func.kind == "setter" and ev.func.srcname == "parent" and state is not None:
                    if state[0] == "done":
                        bad("H1", state[4].wl, "%s step of %s completes without its _post_%s hook" % (state[1], label(state[2]), state[1]),
                            "%s without _post_%s" % (state[4].wl.stmt_text(), state[1]), name, trace)
                    elif state[0] == "pre":
                        bad("H1", state[4], "%s called but no %s link change follows" % (state[4].name, state[1]),
                            "%s without link change" % state[4].stmt_text(), name, trace)
                    state = None
            if outcome[0] == "return" and state is not None and state[0] == "done":
                bad("H1", state[4].wl, "%s step completes without its post hook" % state[1],
                    "%s without _post_%s" % (state[4].wl.stmt_text(), state[1]), name, trace)
        return n, list(out.values())

    def setter_order(self):
        """H3: within one parent assignment the detach step precedes the attach
        step, at most one of each; no handler encloses the post hooks."""
        out = {}
        n = 0
        for name, func, trace, outcome, steps, probs in self.all_rows():
            spans = frame_spans(trace)
            for fid, a, b, f, x, q in _setter_frames_with_entry(trace, spans, func):
                mine = [s for s in steps if a < s.i < b and s.x == x]
                if not mine:
                    continue
                n += 1
                kinds = [s.kind for s in mine]
                if kinds not in (["detach"], ["attach"], ["detach", "attach"]):
                    ev = mine[0].wl
                    out.setdefault(("H3", f.where, "/".join(kinds)), (Problem(
                        "H3", ev, "a parent assignment performs the steps %s; expected detach (if it had a parent) then "
                        "attach (if it gets one), once each" % kinds, construct="%s steps %s" % (f.qual, "/".join(kinds))), name, trace))
            # post hook exceptions must propagate: a post-hook raise must not be caught inside parent.setter
            for k, ev in enumerate(trace):
                if ev.kind == "HOOKRAISE" and ev.name in POST:
                    n += 1
                    for later in trace[k + 1:]:
                        if later.kind == "HANDLER" and later.func.kind == "setter" and later.func.srcname == "parent":
                            out.setdefault(("H3", later.func.where, "handler"), (Problem(
                                "H3", later, "an exception from %s is caught inside the parent assignment: post hook errors "
                                "must propagate without undoing the step" % ev.name,
                                construct="handler %s catches %s" % (later.text, ev.name)), name, trace))
                            break
                        if later.kind in ("EXITRAISE",) and later.func.kind == "setter":
                            break
        return n, list(out.values())

    def children_brackets(self):
        """H4/H5: *_children hooks bracket the per-child loops with the right
        snapshot / tuple argument, once each, in the documented order."""
        out = {}
        n = 0
        nrole = ("obj", "n")

        def bad(rule, ev, why, cons, name, trace):
            out.setdefault((rule, ev.func.where if ev is not None else name, cons), (Problem(rule, ev, why, construct=cons), name, trace))

        for name in ("children.deleter", "children.setter"):
            func, rows = self.analysed[name]
            for trace, outcome, steps, probs in rows:
                cut = len(trace)
                for k, ev in enumerate(trace):
                    if ev.kind in ("HANDLER", "REENTER"):
                        cut = k
                        break
                main = trace[:cut]
                completed = outcome[0] == "return" and cut == len(trace)
                hooks = [(k, ev) for k, ev in enumerate(main) if ev.kind == "HOOK" and ev.name.endswith("_children")]
                names = [ev.name for _, ev in hooks]
                want = ["_pre_detach_children", "_post_detach_children"]
                if name == "children.setter":
                    want = want + ["_pre_attach_children", "_post_attach_children"]
                n += 1
                if completed and names != want:
                    ev = hooks[0][1] if hooks else main[0]
                    bad("H4" if name.endswith("deleter") else "H5", ev,
                        "%s fires the children-level hooks %s on a completed call; expected %s" % (name, names, want),
                        "%s children-hook sequence %s" % (func.qual, "/".join(n_[1:] for n_ in names) or "none"), name, trace)
                    continue
                if not completed and names != want[: len(names)]:
                    ev = hooks[0][1] if hooks else main[0]
                    bad("H4" if name.endswith("deleter") else "H5", ev,
                        "%s fires the children-level hooks in the order %s; expected a prefix of %s" % (name, names, want),
                        "%s children-hook order %s" % (func.qual, "/".join(n_[1:] for n_ in names) or "none"), name, trace)
                    continue
                idx = {ev.name: k for k, ev in hooks}
                evs = {ev.name: ev for _, ev in hooks}
                for hn, ev in evs.items():
                    if ev.recv != nrole:
                        bad("H4", ev, "%s called on %s, not on the node whose children change" % (hn, label(ev.recv)),
                            "%s [receiver %s]" % (ev.stmt_text(), label(ev.recv)), name, trace)
                # arguments
                pre_d, post_d = evs.get("_pre_detach_children"), evs.get("_post_detach_children")
                if pre_d is not None:
                    a = pre_d.args[0] if pre_d.args else None
                    if not (a is not None and a[0] == "snapshot" and a[1] == nrole and a[2] == 0):
                        bad("H4", pre_d, "_pre_detach_children receives %s, not the node's children as they were before the call" % label(a),
                            "%s [argument %s]" % (pre_d.stmt_text(), label(a)), name, trace)
                    if post_d is not None and (not post_d.args or post_d.args[0] != a):
                        bad("H4", post_d, "_post_detach_children receives %s, not the former children passed to the pre hook (%s)" % (
                            label(post_d.args[0]) if post_d.args else "nothing", label(a)),
                            "%s [argument %s]" % (post_d.stmt_text(), label(post_d.args[0]) if post_d.args else "-"), name, trace)
                if name == "children.setter":
                    xs = ("tuple", ("arg", func.posparams[1]))
                    for hn in ("_pre_attach_children", "_post_attach_children"):
                        ev = evs.get(hn)
                        if ev is not None and (not ev.args or (ev.args[0] != xs and ev.args[0] != ("literal", ()))):
                            # (the empty literal: the validated tuple of an argument that stands for "no children")
                            bad("H5", ev, "%s receives %s, not the validated tuple of new children" % (
                                hn, label(ev.args[0]) if ev.args else "nothing"),
                                "%s [argument %s]" % (ev.stmt_text(), label(ev.args[0]) if ev.args else "-"), name, trace)
                # bracket positions: detach steps of former children between pre/post detach hooks,
                # attach steps between pre/post attach hooks
                msteps = [s for s in steps if s.j < cut]
                for s in msteps:
                    lo, hi, rule = None, None, None
                    if s.kind == "detach" and s.x[0] == "elem" and s.x[1][0] == "snapshot" and s.p == nrole:
                        lo, hi, rule = idx.get("_pre_detach_children"), idx.get("_post_detach_children"), "H4"
                        hookpair = "_pre/_post_detach_children"
                    elif s.kind == "attach" and s.p == nrole and name == "children.setter":
                        lo, hi, rule = idx.get("_pre_attach_children"), idx.get("_post_attach_children"), "H5"
                        hookpair = "_pre/_post_attach_children"
                    else:
                        continue
                    n += 1
                    if lo is None or s.i < lo or (hi is not None and s.i > hi):
                        bad(rule, s.wl, "%s of %s happens outside the %s bracket" % (s.kind, label(s.x), hookpair),
                            "%s step outside %s bracket" % (s.kind, hookpair), name, trace)
                # the deleter loop iterates the current children in order
                dets = [s for s in msteps if s.kind == "detach" and s.p == nrole and s.x[0] == "elem" and s.x[1][0] == "snapshot"]
                ks = [s.x[2] for s in dets]
                if ks != sorted(ks) or len(set(ks)) != len(ks) or any(s.x[1][2] != 0 for s in dets):
                    bad("H4", dets[0].wl, "former children are not detached one by one in their current order",
                        "%s detach order" % func.qual, name, trace)
                if completed:
                    # every former child the loop visited was detached (assignment of None), none skipped
                    import ast as _ast2

                    def _detaching_loop(ev):
                        # the loop that detaches the former children: in the deleter, or (after a refactoring) in a private helper
                        # shared by setter and deleter - recognised by its body assigning `<element>.parent = None`
                        if ev.func.kind == "deleter":
                            return True
                        nd = ev.node
                        return isinstance(nd, _ast2.For) and any(
                            isinstance(a_, _ast2.Assign) and any(isinstance(t_, _ast2.Attribute) and t_.attr == "parent" for t_ in a_.targets)
                            and isinstance(a_.value, _ast2.Constant) and a_.value.value is None for a_ in _ast2.walk(nd))
                    loops = [ev for ev in main if ev.kind == "ITER" and ev.a[0] == "snapshot" and ev.a[1] == nrole and _detaching_loop(ev)]
                    if len(loops) != len(dets):
                        bad("H4", main[0], "not every former child visited by the deleter loop is detached (%d visited, %d detached)" % (
                            len(loops), len(dets)), "%s skips children" % func.qual, name, trace)
        return n, list(out.values())


def _setter_frames_with_entry(trace, spans, entry_func):
    out = setter_frames(trace, spans)
    return out


def _derived_from_chain(role, q):
    """role is an element of chain(q) or q's parent chain"""
    r = role
    for _ in range(8):
        if r is None:
            return False
        if r == q:
            return True
        if r[0] == "elem" and r[1] == ("chain", q):
            return True
        if r[0] == "parent_of":
            r = r[1]
            continue
        return False
    return False


def _index_of(trace, ev):
    for k, e in enumerate(trace):
        if e is ev:
            return k
    return len(trace)


def _cur_parent_initial(x):
    if x[0] == "elem" and x[1][0] == "snapshot" and x[1][2] == 0:
        return x[1][1]
    return ("parent_of", x)


def _role_class(r):
    """iteration-independent class of a receiver role, used in finding keys"""
    if r == ("obj", "n"):
        return "the node itself"
    if r[0] == "arg":
        return "the new parent"
    if r[0] == "parent_of":
        inner = r[1]
        if inner == ("obj", "n"):
            return "the node's former parent"
        if inner[0] == "elem" and inner[1][0] == "tuple":
            return "the former parent of a new child"
        if inner[0] == "elem" and inner[1][0] == "snapshot":
            return "the parent of a former child"
        return "parent of %s" % _role_class(inner)
    if r[0] == "elem":
        if r[1][0] == "tuple":
            return "a new child"
        if r[1][0] == "snapshot":
            return "a former child"
        return "an element of %s" % label(r[1])
    return label(r)


def _veto_kind(exc):
    if exc.origin == "hook":
        return "%s may veto" % exc.event.name
    if exc.origin == "useriter":
        return "iterating the argument may fail"
    if exc.origin == "nonnode":
        return "the argument may not be a node at all"
    return exc.cls


def trace_text(trace):
    return format_trace(trace, 80)


def _origin_label(ev):
    """stable name of a veto point: the hook or the exception class, not the statement text"""
    if ev.kind == "HOOK":
        return "hook %s" % ev.name
    if ev.kind in ("RAISE", "RERAISE"):
        return "raise %s" % (getattr(ev, "exc", None) or "?")
    return ev.kind.lower()
