"""Identity-only lint (C17 rules T1-T5), driven by node-type inference.

Reports every expression context in which a value typed as a tree node (or a
sequence of tree nodes) would have one of its user-definable special methods
invoked: __eq__/__ne__/ordering, __hash__, __bool__/__len__ (truth value),
__len__/__iter__/__contains__/__getitem__ (container protocol).
Expressions whose type is unknown ('top') are never reported."""

import ast

from .model import norm
from .nodetype import has_node, is_node_seq, is_node_seq_seq, show

ORDER_OPS = (ast.Eq, ast.NotEq, ast.Lt, ast.LtE, ast.Gt, ast.GtE)
EQ_SEARCH_METHODS = ("index", "count", "remove")
HASH_METHODS = ("add", "discard", "get", "setdefault", "pop", "fromkeys", "__contains__")
ITER_BUILTINS = ("tuple", "list", "sorted", "reversed", "enumerate", "zip", "set", "frozenset", "iter", "len",
                 "sum", "max", "min", "any", "all", "next", "dict")
CACHE_DECORATORS = ("lru_cache", "cache", "cached_property", "clru_cache", "lru_cache_typed")


class Hit:
    def __init__(self, rule, func, node, why):
        self.rule, self.func, self.node, self.why = rule, func, node, why


def _own_nodes(func):
    """AST nodes of the function body, not descending into nested defs/lambdas."""
    roots = [func.node.body] if func.is_lambda else list(func.node.body)
    stack = list(roots)
    while stack:
        n = stack.pop()
        yield n
        for c in ast.iter_child_nodes(n):
            if isinstance(c, (ast.FunctionDef, ast.AsyncFunctionDef, ast.Lambda, ast.ClassDef)):
                continue
            stack.append(c)


_TYPER = [None]


def _seq_of_nodes(t):
    """node sequence, looking through iterator objects of the package"""
    if is_node_seq(t):
        return True
    ty = _TYPER[0]
    if ty is not None and t is not None and "top" not in t and any(isinstance(a, tuple) and a[0] in ("iter", "obj") for a in t):
        return has_node(ty._iter_elem(t))
    return False


def _may_node(t):
    """the value may be a tree node (other possibilities unknown): enough for the unambiguous hashing calls"""
    return t is not None and "node" in t


def lint_function(func, ft):
    """Yield Hit objects for one analysed function.  Also returns counts via
    the ``stats`` attribute of the generator's final StopIteration (unused)."""
    ty = ft.type_of
    hits = []

    def hit(rule, node, why):
        hits.append(Hit(rule, func, node, why))

    def truth(expr, where):
        if isinstance(expr, ast.BoolOp):
            for v in expr.values:
                truth(v, where)
            return
        if isinstance(expr, ast.UnaryOp) and isinstance(expr.op, ast.Not):
            truth(expr.operand, where)
            return
        t = ty(expr)
        if has_node(t):
            hit("T3", expr, "truth value of a node (%s) taken in %s: calls __bool__/__len__" % (show(t), where))

    test_exprs = set()
    for n in _own_nodes(func):
        # ---- T3 truth contexts
        if isinstance(n, (ast.If, ast.While)):
            truth(n.test, type(n).__name__.lower() + " test")
            test_exprs.add(id(n.test))
        elif isinstance(n, ast.IfExp):
            truth(n.test, "conditional expression")
            test_exprs.add(id(n.test))
        elif isinstance(n, ast.Assert):
            truth(n.test, "assert")
            test_exprs.add(id(n.test))
        elif isinstance(n, ast.comprehension):
            for c in n.ifs:
                truth(c, "comprehension condition")
                test_exprs.add(id(c))
            t = ty(n.iter)
            if has_node(t):
                hit("T5", n.iter, "iterating a node (%s): calls __iter__" % show(t))
        elif isinstance(n, (ast.For, ast.AsyncFor)):
            t = ty(n.iter)
            if has_node(t):
                hit("T5", n.iter, "iterating a node (%s): calls __iter__" % show(t))
        elif isinstance(n, ast.YieldFrom):
            t = ty(n.value)
            if has_node(t):
                hit("T5", n.value, "yield from a node: calls __iter__")
        elif isinstance(n, ast.UnaryOp) and isinstance(n.op, ast.Not):
            if id(n) not in test_exprs:
                truth(n.operand, "operand of not")
        elif isinstance(n, ast.Starred):
            t = ty(n.value)
            if has_node(t):
                hit("T5", n.value, "unpacking a node: calls __iter__")
        # ---- comparisons
        elif isinstance(n, ast.Compare):
            left = n.left
            for op, right in zip(n.ops, n.comparators):
                tl, tr = ty(left), ty(right)
                if isinstance(op, ORDER_OPS):
                    if has_node(tl) or has_node(tr):
                        hit("T1", n, "value comparison %s on a node (%s vs %s): calls __eq__/__ne__/ordering" % (
                            type(op).__name__, show(tl), show(tr)))
                    elif (is_node_seq(tl) or is_node_seq_seq(tl)) and (is_node_seq(tr) or is_node_seq_seq(tr)):
                        hit("T1", n, "value comparison of node sequences compares elements with __eq__")
                elif isinstance(op, (ast.In, ast.NotIn)):
                    if has_node(tr):
                        hit("T5", n, "membership test in a node (%s): calls __contains__/__iter__" % show(tr))
                    elif has_node(tl):
                        hit("T2", n, "membership test of a node (%s) in a container: compares with __eq__ (or hashes)" % show(tl))
                    elif is_node_seq(tl) and is_node_seq_seq(tr):
                        hit("T2", n, "membership test of a node sequence compares elements with __eq__")
                left = right
        elif isinstance(n, ast.Subscript):
            tv = ty(n.value)
            if has_node(tv):
                hit("T5", n, "subscripting a node (%s): calls __getitem__" % show(tv))
            elif not isinstance(n.slice, ast.Slice):
                ts = ty(n.slice)
                if has_node(ts):
                    hit("T4", n, "node (%s) used as key/index: hashes or compares it" % show(ts))
        elif isinstance(n, ast.Dict):
            for k in n.keys:
                if k is not None and has_node(ty(k)):
                    hit("T4", k, "node used as dict key: calls __hash__")
        elif isinstance(n, ast.Set):
            for k in n.elts:
                if has_node(ty(k)):
                    hit("T4", k, "node used as set element: calls __hash__")
        elif isinstance(n, ast.SetComp):
            if has_node(ty(n.elt)):
                hit("T4", n.elt, "node used as set element: calls __hash__")
        elif isinstance(n, ast.DictComp):
            if has_node(ty(n.key)):
                hit("T4", n.key, "node used as dict key: calls __hash__")
        elif isinstance(n, ast.Call):
            _lint_call(n, ty, ft, hit)
    # BoolOp in value position: every operand but the last has its truth taken
    for n in _own_nodes(func):
        if isinstance(n, ast.BoolOp) and id(n) not in test_exprs:
            if _inside_test(n, func, test_exprs):
                continue
            for v in n.values[:-1]:
                truth(v, "operand of %s" % ("and" if isinstance(n.op, ast.And) else "or"))
    # de-duplicate (a BoolOp operand may be visited twice)
    seen, out = set(), []
    for h in hits:
        k = (h.rule, id(h.node))
        if k not in seen:
            seen.add(k)
            out.append(h)
    return out


def _inside_test(n, func, test_exprs):
    # nested BoolOps of a test are handled by truth(); detect by identity walk
    for root_id in test_exprs:
        pass
    return getattr(n, "_in_test", False)


def mark_tests(func):
    """Mark every BoolOp that is (part of) a test so it is not handled twice."""
    for n in _own_nodes(func):
        tests = []
        if isinstance(n, (ast.If, ast.While, ast.IfExp, ast.Assert)):
            tests.append(n.test)
        elif isinstance(n, ast.comprehension):
            tests.extend(n.ifs)
        for t in tests:
            stack = [t]
            while stack:
                x = stack.pop()
                if isinstance(x, ast.BoolOp):
                    x._in_test = True
                    stack.extend(x.values)
                elif isinstance(x, ast.UnaryOp) and isinstance(x.op, ast.Not):
                    stack.append(x.operand)


def _kw(call, name):
    for k in call.keywords:
        if k.arg == name:
            return k.value
    return None


def _lint_call(n, ty, ft, hit):
    f = n.func
    res = ft.calls.get(id(n))
    args = n.args
    a0 = args[0] if args and not isinstance(args[0], ast.Starred) else None
    if isinstance(f, ast.Name) and res is not None and res.kind == "builtin":
        name = f.id
        t0 = ty(a0) if a0 is not None else None
        if name == "hash" and has_node(t0):
            hit("T4", n, "hash() of a node: calls __hash__")
        if name == "bool" and has_node(t0):
            hit("T3", n, "bool() of a node: calls __bool__/__len__")
        if name in ITER_BUILTINS and name not in ("max", "min", "next", "dict") and has_node(t0):
            hit("T5", n, "%s() applied to a node: calls __len__/__iter__" % name)
        if name in ("set", "frozenset") and _seq_of_nodes(t0):
            hit("T4", n, "%s() of nodes: calls __hash__ on each" % name)
        if name in ("any", "all") and _seq_of_nodes(t0):
            hit("T3", n, "%s() applied directly to nodes: takes the truth value of each" % name)
        if name == "filter" and len(args) == 2 and is_node_seq(ty(args[1])):
            t_f = ty(args[0])
            if (isinstance(args[0], ast.Constant) and args[0].value is None) or (t_f is not None and "top" not in t_f and "none" in t_f):
                hit("T3", n, "filter(<possibly None>, nodes): with None as function the truth value of each node is taken")
        if name in ("sorted", "max", "min") and _kw(n, "key") is None:
            if _seq_of_nodes(t0) and len(args) == 1:
                hit("T2", n, "%s() of nodes without key: orders them with __lt__" % name)
            elif name in ("max", "min") and len(args) >= 2 and any(has_node(ty(a)) for a in args):
                hit("T2", n, "%s() of nodes without key: orders them with __lt__/__gt__" % name)
        if name == "dict" and a0 is not None and is_node_seq(t0):
            pass
        if name == "sum" and is_node_seq(t0):
            hit("T1", n, "sum() of nodes: calls __add__/__radd__")
    if isinstance(f, ast.Attribute):
        m = f.attr
        tr = ty(f.value)
        if m in EQ_SEARCH_METHODS and args and any(has_node(ty(a)) for a in args if not isinstance(a, ast.Starred)) \
                and not has_node(tr):
            hit("T2", n, ".%s(node): searches by __eq__" % m)
        if m in HASH_METHODS and m not in ("pop", "get") and args and (has_node(ty(a0)) or (m in ("setdefault", "add", "fromkeys")
                                                                                       and _may_node(ty(a0)))) and not has_node(tr) \
                and (res is None or res.kind in ("method", "unknown")):
            hit("T4", n, ".%s(node): hashes the node" % m)
        if m in ("get", "pop") and a0 is not None and has_node(ty(a0)) and not has_node(tr) and not is_node_seq(tr) \
                and (res is None or res.kind in ("method", "unknown")):
            hit("T4", n, ".%s(node): hashes the node" % m)
        if m == "sort" and is_node_seq(tr) and _kw(n, "key") is None:
            hit("T2", n, ".sort() of nodes without key: orders them with __lt__")
        if m == "fromkeys" and a0 is not None and is_node_seq(ty(a0)):
            hit("T4", n, "dict.fromkeys(nodes): hashes each node")


def lint_decorators(func, typer):
    """functools caches keyed by a node parameter (T4)."""
    hits = []
    for d in func.decorators:
        base = d.func if isinstance(d, ast.Call) else d
        name = base.attr if isinstance(base, ast.Attribute) else (base.id if isinstance(base, ast.Name) else "")
        if isinstance(base, ast.Name):
            r = typer.p.resolve_name(func.module, base.id)
            if r is not None and r[0] == "ext" and r[1].split(".")[-1] in CACHE_DECORATORS and not r[1].startswith("fastcache"):
                name = r[1].split(".")[-1]
        if name in CACHE_DECORATORS:
            seeds = typer.seed_params(func)
            nodeparams = [p for p, v in seeds.items() if has_node(v)]
            if nodeparams:
                hits.append(Hit("T4", func, d, "cache decorator %s keys on node parameter(s) %s: hashes nodes" % (
                    norm(d), ", ".join(nodeparams))))
    return hits


def lint_program(program, typer, files=None):
    """Run the lint over every function; returns (hits, stats)."""
    hits = []
    _TYPER[0] = typer
    stats = {"functions": 0, "typed_node": 0, "typed_node_seq": 0, "typed_top": 0, "typed_total": 0}
    for func in program.all_funcs:
        if files is not None and func.module.relpath not in files:
            continue
        ft = typer.results.get(func)
        if ft is None:
            ft = typer.analyze(func)
        if ft is None:
            continue
        stats["functions"] += 1
        for v in ft.expr.values():
            stats["typed_total"] += 1
            if has_node(v):
                stats["typed_node"] += 1
            elif is_node_seq(v) or is_node_seq_seq(v):
                stats["typed_node_seq"] += 1
            elif v is None or "top" in v:
                stats["typed_top"] += 1
        mark_tests(func)
        hits.extend(lint_function(func, ft))
        hits.extend(lint_decorators(func, typer))
    return hits, stats
