"""Effect analysis: which functions of the package can change state that
outlives the call (attribute stores, mutation of non-fresh containers, module
or class level state, hooks, opaque callees).  Fixpoint over the resolved call
graph of the node-type inference."""

import ast

from . import tables as T
from .model import Func, Prop, mangle, norm
from .nodetype import has_node
from .rules.common import walk_own

FRESH_CALLS = {"list", "tuple", "dict", "set", "sorted", "reversed", "frozenset", "zip", "enumerate", "iter", "filter", "map"}


class Effect:
    __slots__ = ("kind", "func", "node", "text", "via")

    def __init__(self, kind, func, node, text, via=None):
        self.kind, self.func, self.node, self.text, self.via = kind, func, node, text, via

    def key(self):
        return (self.kind, self.func.where, self.text)

    def __repr__(self):
        return "<%s %s %s>" % (self.kind, self.func.qual, self.text)


def fresh_locals(func):
    """local names only ever bound to freshly created containers"""
    binds = {}
    for n in walk_own(func.node):
        if isinstance(n, ast.Assign):
            for t in n.targets:
                if isinstance(t, ast.Name):
                    binds.setdefault(t.id, []).append(n.value)
                elif isinstance(t, (ast.Tuple, ast.List)):
                    for e in ast.walk(t):
                        if isinstance(e, ast.Name):
                            binds.setdefault(e.id, []).append(None)
        elif isinstance(n, ast.AugAssign) and isinstance(n.target, ast.Name):
            binds.setdefault(n.target.id, []).append(n.value if _is_fresh(n.value, set()) else None)
        elif isinstance(n, (ast.For, ast.comprehension)):
            for e in ast.walk(n.target):
                if isinstance(e, ast.Name):
                    binds.setdefault(e.id, []).append(None)
        elif isinstance(n, ast.ExceptHandler) and n.name:
            binds.setdefault(n.name, []).append(None)
        elif isinstance(n, ast.withitem) and n.optional_vars is not None:
            for e in ast.walk(n.optional_vars):
                if isinstance(e, ast.Name):
                    binds.setdefault(e.id, []).append(None)
    params = set(func.params)
    fresh = set()
    changed = True
    while changed:
        changed = False
        for name, vals in binds.items():
            if name in params or name in fresh:
                continue
            if all(v is not None and _is_fresh(v, fresh) for v in vals):
                fresh.add(name)
                changed = True
    return fresh


def _is_fresh(v, fresh):
    if isinstance(v, (ast.List, ast.Dict, ast.Set, ast.ListComp, ast.DictComp, ast.SetComp, ast.Tuple, ast.Constant)):
        return True
    if isinstance(v, ast.Call) and isinstance(v.func, ast.Name) and v.func.id in FRESH_CALLS | {"deque", "defaultdict", "OrderedDict", "Counter"}:
        return True
    if isinstance(v, ast.Call) and isinstance(v.func, ast.Attribute) and norm(v.func) in (
            "collections.deque", "collections.defaultdict", "collections.OrderedDict", "itertools.chain", "itertools.count"):
        return True
    if isinstance(v, ast.BinOp) and isinstance(v.op, ast.Add):
        return _is_fresh(v.left, fresh) or _is_fresh(v.right, fresh)
    if isinstance(v, ast.Name) and v.id in fresh:
        return True
    if isinstance(v, ast.Call) and isinstance(v.func, ast.Attribute) and v.func.attr == "copy":
        return True
    return False


def local_effects(func, typer):
    """effects of the function body itself; calls are returned separately"""
    effects, calls = [], []
    ft = typer.results.get(func)
    fresh = fresh_locals(func)
    cls = func.cls
    for d in func.decorators:
        base = d.func if isinstance(d, ast.Call) else d
        name = norm(base)
        if name in ("property", "staticmethod", "classmethod") or name.endswith((".setter", ".deleter", ".getter")):
            continue
        if name in ("wraps", "six.python_2_unicode_compatible", "functools.wraps"):
            continue
        effects.append(Effect("decorator", func, d, "decorator @%s" % norm(d)))
    for n in walk_own(func.node):
        if isinstance(n, ast.Attribute) and isinstance(n.ctx, (ast.Store, ast.Del)):
            m = mangle(cls.name, n.attr) if cls is not None else n.attr
            rt = ft.type_of(n.value) if ft is not None else None
            if _is_lazy_init(func, n):
                effects.append(Effect("lazyinit", func, n, "lazy initialisation of %s" % m))
                continue
            if cls is not None and cls.name in T.MIXINS and isinstance(n.ctx, ast.Store):
                from .memo import memo_fields
                mm = memo_fields(typer.p).get(m)
                if mm is not None and any(any(t_ is n for t_ in st_.targets) for f_, st_, _ in mm.fills if f_ is func):
                    # the memo idiom: a private cache of a value computed from the links (its coherence is C04 N8's subject)
                    effects.append(Effect("lazyinit", func, n, "memo fill of %s" % m))
                    continue
            # a store that resolves to a structural property setter of a node
            if has_node(rt) and n.attr in ("parent", "children"):
                effects.append(Effect("structural", func, n, "assignment to .%s of a node" % n.attr))
            elif isinstance(n.value, ast.Name) and n.value.id == func.selfname:
                effects.append(Effect("selfstore", func, n, "store to self.%s" % m))
            else:
                effects.append(Effect("store", func, n, "store to %s" % norm(n)))
        elif isinstance(n, ast.Subscript) and isinstance(n.ctx, (ast.Store, ast.Del)):
            base = n.value
            if isinstance(base, ast.Name) and base.id in fresh:
                continue
            effects.append(Effect("itemstore", func, n, "item store on %s" % norm(base)))
        elif isinstance(n, ast.AugAssign) and isinstance(n.target, ast.Name):
            if n.target.id not in fresh and n.target.id in func.params:
                effects.append(Effect("mutation", func, n, "augmented assignment on parameter %s" % n.target.id))
        elif isinstance(n, (ast.Global, ast.Nonlocal)):
            effects.append(Effect("global", func, n, "global/nonlocal %s" % ", ".join(n.names)))
        elif isinstance(n, ast.Call):
            res = ft.calls.get(id(n)) if ft is not None else None
            f = n.func
            if isinstance(f, ast.Attribute) and f.attr in T.MUTATING_METHODS and (res is None or res.kind in ("method", "unknown")):
                base = f.value
                if isinstance(base, ast.Name) and base.id in fresh:
                    continue
                effects.append(Effect("mutation", func, n, "mutating call %s" % norm(f)))
                continue
            if res is None and isinstance(f, ast.Name) and f.id in (set(T.PURE_BUILTINS) | set(T.EXC_BUILTINS)) and f.id not in func.params:
                continue  # a builtin in code the type inference found unreachable
            if res is None:
                effects.append(Effect("unknowncall", func, n, "unresolved call %s" % norm(f)))
            elif res.kind == "hook":
                effects.append(Effect("hook", func, n, "hook %s" % res.name))
            elif res.kind == "callback":
                effects.append(Effect("callback", func, n, "user callback %s" % res.name))
            elif res.kind == "unknown" and _is_logger_call(func, f):
                continue  # diagnostics: cannot touch the tree or any state the library reads
            elif res.kind == "unknown":
                effects.append(Effect("unknowncall", func, n, "opaque call %s" % norm(f)))
            elif res.kind == "ext":
                if res.name not in ("re.escape", "six.text_type", "os.path.splitext", "collections.namedtuple") and not res.name.startswith(
                        ("itertools.", "operator.", "collections.", "functools.partial", "math.", "logging.", "warnings.")):
                    effects.append(Effect("ext", func, n, "stdlib call %s" % res.name))
            elif res.kind == "builtin":
                if res.name in T.EFFECT_BUILTINS:
                    effects.append(Effect("store", func, n, "builtin %s" % res.name))
            elif res.kind == "func":
                ts = res.target if isinstance(res.target, list) else [res.target]
                for t in ts:
                    if isinstance(t, Func):
                        calls.append((n, t))
            elif res.kind == "ctor":
                init = res.target.lookup("__init__")
                if isinstance(init, Func):
                    calls.append((n, ("ctor", init)))
    # iterating an iterator object of the package runs its __next__/_iter
    if ft is not None:
        for n in walk_own(func.node):
            its = []
            if isinstance(n, (ast.For, ast.comprehension)):
                its.append(n.iter)
            elif isinstance(n, ast.Call) and isinstance(n.func, ast.Name) and n.func.id in FRESH_CALLS | {"next", "any", "all", "max", "min", "sum", "len"}:
                its.extend(a for a in n.args if not isinstance(a, ast.Starred))
            elif isinstance(n, ast.Call) and (norm(n.func) in ("islice", "itertools.islice", "takewhile", "dropwhile", "itertools.takewhile", "itertools.dropwhile")
                                              or norm(n.func) in ("chain", "itertools.chain")):
                # lazy wrappers of itertools: the wrapped iterator runs when the wrapper is consumed
                its.extend(a for a in n.args if not isinstance(a, ast.Starred))
            elif isinstance(n, ast.YieldFrom):
                its.append(n.value)
            for it in its:
                t = ft.type_of(it)
                if t is None or "top" in t:
                    continue
                for a in t:
                    if isinstance(a, tuple) and a[0] in ("iter", "obj"):
                        c = typer.p.classes.get(a[1])
                        if c is None:
                            continue
                        for mname in ("__next__", "__iter__", "_iter", "_AbstractIter__init"):
                            mem = c.lookup(mname)
                            if isinstance(mem, Func):
                                calls.append((it, mem))
    # attribute loads that run a getter of the package (node API / properties)
    if ft is not None:
        for n in walk_own(func.node):
            if isinstance(n, ast.Attribute) and isinstance(n.ctx, ast.Load):
                rt = ft.type_of(n.value)
                if rt is not None and "node" in rt:  # may be a node (also when something else is unknown): the getter may run
                    for m in T.MIXINS:
                        c = typer.p.classes.get(m)
                        if c is None:
                            continue
                        mem = c.members.get(mangle(cls.name, n.attr) if cls is not None and cls.name == m else n.attr)
                        if isinstance(mem, Prop) and mem.getter is not None:
                            calls.append((n, mem.getter))
                elif rt is not None and "top" not in rt:
                    for a in rt:
                        if isinstance(a, tuple) and a[0] in ("obj", "iter"):
                            c = typer.p.classes.get(a[1])
                            mem = c.lookup(mangle(c.name, n.attr)) if c else None
                            if isinstance(mem, Prop) and mem.getter is not None:
                                calls.append((n, mem.getter))
    return effects, calls


def _is_logger_call(func, f):
    """`logger.debug(...)` with logger = logging.getLogger(...) bound at module level"""
    if not (isinstance(f, ast.Attribute) and isinstance(f.value, ast.Name)
            and f.attr in ("debug", "info", "warning", "error", "exception", "critical", "log", "isEnabledFor")):
        return False
    v = func.module.assigns.get(f.value.id)
    return isinstance(v, ast.Call) and norm(v.func) in ("logging.getLogger", "getLogger")


def _is_lazy_init(func, attr_node):
    """self.__children = [] guarded by `not hasattr(self, "<that field>")` - or stored in the `except AttributeError`
    handler of a try whose body reads that very attribute of the same object"""
    if func.cls is None:
        return False
    m = mangle(func.cls.name, attr_node.attr)
    for n in walk_own(func.node):
        if isinstance(n, ast.Try) and not n.finalbody:
            for h in n.handlers:
                if h.type is not None and norm(h.type) == "AttributeError":
                    for a in h.body:
                        if isinstance(a, ast.Assign) and any(t is attr_node for t in a.targets) and isinstance(a.value, ast.List) and not a.value.elts:
                            reads = [x for st in n.body for x in ast.walk(st) if isinstance(x, ast.Attribute) and isinstance(x.ctx, ast.Load)
                                     and x.attr == attr_node.attr and norm(x.value) == norm(attr_node.value)]
                            if reads:
                                return True
    for n in walk_own(func.node):
        if isinstance(n, ast.If) and not n.orelse and len(n.body) == 1 and isinstance(n.body[0], ast.Assign):
            a = n.body[0]
            if len(a.targets) == 1 and a.targets[0] is attr_node and isinstance(a.value, ast.List) and not a.value.elts:
                t = n.test
                if isinstance(t, ast.UnaryOp) and isinstance(t.op, ast.Not) and isinstance(t.operand, ast.Call) \
                        and norm(t.operand.func) == "hasattr" and len(t.operand.args) == 2 \
                        and norm(t.operand.args[0]) == norm(attr_node.value) \
                        and isinstance(t.operand.args[1], ast.Constant) and t.operand.args[1].value == m:
                    return True
    return False


class Purity:
    def __init__(self, program, typer):
        self.p = program
        self.typer = typer
        self.local = {}
        self.calls = {}
        for f in program.all_funcs:
            e, c = local_effects(f, typer)
            self.local[f] = e
            self.calls[f] = c
        self.total = {f: {x.key(): x for x in e} for f, e in self.local.items()}
        changed = True
        rounds = 0
        while changed and rounds < 30:
            changed = False
            rounds += 1
            for f in program.all_funcs:
                cur = self.total[f]
                for site, t in self.calls[f]:
                    selfstore_ok = False
                    if isinstance(t, tuple):
                        t = t[1]
                        selfstore_ok = True  # a constructor initialising its own fresh object
                    for k, x in list(self.total.get(t, {}).items()):
                        if selfstore_ok and x.kind == "selfstore" and x.func is t:
                            continue
                        if k not in cur:
                            cur[k] = Effect(x.kind, x.func, x.node, x.text, via=(site, t))
                            changed = True
                # generator functions defined inside / lambdas: their effects happen when called
            for f in program.all_funcs:
                for g in f.nested:
                    for k, x in list(self.total.get(g, {}).items()):
                        if k not in self.total[f]:
                            self.total[f][k] = x
                            changed = True

    def effects(self, func, ignore=()):
        return [x for x in self.total.get(func, {}).values() if x.kind not in ignore]
