"""Node-type inference and call resolution (DESIGN 3.2, 3.5).

A forward, flow-sensitive abstract interpretation per function over sets of
atoms.  Atoms: 'node' 'none' 'int' 'str' 'bool' 'func' 'id' 'other' 'top',
('seq', V) ('set', V) ('tup', (V, ...)) ('iter', clsname) ('obj', clsname)
('class', clsname) ('mod', dotted).  'top' means "unknown": a value that
contains it is never flagged by any rule."""

import ast

from . import tables as T
from .cfg import CFG, forward_dataflow
from .model import AnalysisError, Func, Prop, mangle, norm

EMPTY = frozenset()
TOP = frozenset(["top"])
NODE = frozenset(["node"])
NONE = frozenset(["none"])
OPT_NODE = NODE | NONE
INT = frozenset(["int"])
OPT_INT = INT | NONE
STR = frozenset(["str"])
BOOL = frozenset(["bool"])
FUNC = frozenset(["func"])
OTHER = frozenset(["other"])
ID = frozenset(["id"])


def seq(e):
    return frozenset([("seq", e)])


def tup(*comps):
    return frozenset([("tup", tuple(comps))])


NODE_SEQ = seq(NODE)
NODE_SEQ_SEQ = seq(NODE_SEQ)


def depth(v, d=0):
    if d > 6:
        return d
    m = d
    for a in v:
        if isinstance(a, tuple):
            if a[0] in ("seq", "set"):
                m = max(m, depth(a[1], d + 1))
            elif a[0] == "tup":
                for c in a[1]:
                    m = max(m, depth(c, d + 1))
    return m


def join(a, b):
    if a is None:
        return b
    if b is None:
        return a
    r = a | b
    # merge seq atoms so that the set stays small
    seqs = [x for x in r if isinstance(x, tuple) and x[0] == "seq"]
    if len(seqs) > 1:
        e = EMPTY
        for s in seqs:
            e = join(e, s[1])
        r = frozenset(x for x in r if not (isinstance(x, tuple) and x[0] == "seq")) | seq(e)
    sets = [x for x in r if isinstance(x, tuple) and x[0] == "set"]
    if len(sets) > 1:
        e = EMPTY
        for s in sets:
            e = join(e, s[1])
        r = frozenset(x for x in r if not (isinstance(x, tuple) and x[0] == "set")) | frozenset([("set", e)])
    if depth(r) > 5:
        return TOP
    return r


def path_key(e):
    """access path of `x.attr` / `x[<constant>]` (x a plain name) as a key of the flow state, else None"""
    if isinstance(e, ast.Attribute) and isinstance(e.value, ast.Name):
        return "%s.%s" % (e.value.id, e.attr)
    if isinstance(e, ast.Subscript) and isinstance(e.value, ast.Name) and isinstance(e.slice, ast.Constant) and isinstance(e.slice.value, int):
        return "%s[%d]" % (e.value.id, e.slice.value)
    return None


def is_top(v):
    return v is None or "top" in v


MAY_NODE_WITH_TOP = [True]


def has_node(v):
    """The value may be a tree node and nothing about it is unknown."""
    return v is not None and "node" in v and ("top" not in v or MAY_NODE_WITH_TOP[0])


def elem(v):
    """Type of the elements obtained by iterating / indexing ``v``."""
    if v is None:
        return TOP
    out = EMPTY
    for a in v:
        if isinstance(a, tuple) and a[0] in ("seq", "set"):
            out = join(out, a[1])
        elif isinstance(a, tuple) and a[0] == "tup":
            for c in a[1]:
                out = join(out, c)
        elif a == "str":
            out = join(out, STR)
        elif a == "none":
            continue
        else:
            out = join(out, TOP)
    return out


def is_node_seq(v):
    """A sequence whose elements may be nodes (and nothing unknown)."""
    if v is None or "top" in v:
        return False
    for a in v:
        if isinstance(a, tuple) and a[0] in ("seq", "set") and has_node(a[1]):
            return True
    return False


def is_node_seq_seq(v):
    if v is None or "top" in v:
        return False
    for a in v:
        if isinstance(a, tuple) and a[0] == "seq" and is_node_seq(a[1]):
            return True
    return False


def show(v):
    if v is None:
        return "⊥"
    def one(a):
        if isinstance(a, tuple):
            if a[0] in ("seq", "set"):
                return "%s[%s]" % (a[0], show(a[1]))
            if a[0] == "tup":
                return "(%s)" % ", ".join(show(c) for c in a[1])
            return "%s:%s" % a
        return a
    return "|".join(sorted(one(a) for a in v)) or "∅"


class CallRes:
    """How one call site was resolved."""
    __slots__ = ("kind", "target", "name", "recv")

    def __init__(self, kind, target=None, name="", recv=None):
        self.kind = kind  # func ctor hook callback builtin method ext unknown
        self.target = target  # Func / Class / list of Func
        self.name = name
        self.recv = recv

    def __repr__(self):
        return "<%s %s>" % (self.kind, self.name)


class FuncTypes:
    def __init__(self, func, cfg):
        self.func = func
        self.cfg = cfg
        self.expr = {}  # id(expr node) -> V (joined over all visits)
        self.calls = {}  # id(call node) -> CallRes
        self.instate = {}
        self.env_join = {}
        self.ret = EMPTY
        self.yields = None

    def type_of(self, node):
        return self.expr.get(id(node))


def _is_generator(fnode):
    stack = list(fnode.body) if not isinstance(fnode, ast.Lambda) else [fnode.body]
    while stack:
        n = stack.pop()
        if isinstance(n, (ast.Yield, ast.YieldFrom)):
            return True
        if isinstance(n, (ast.FunctionDef, ast.AsyncFunctionDef, ast.Lambda, ast.ClassDef)):
            continue
        stack.extend(ast.iter_child_nodes(n))
    return False


class Typer:
    def __init__(self, program, assume=None, param_override=None):
        self.p = program
        self.assume = dict(assume or {})  # norm(cond) -> bool : pruned configuration
        self.param_override = dict(param_override or {})  # (where, param) -> V
        self.summ = {}  # Func -> V
        self.results = {}  # Func -> FuncTypes
        self.field_cache = {}
        self._in_progress = set()
        self.node_classes = set()
        for m in T.MIXINS:
            if m in program.classes:
                for c in program.subclasses(program.classes[m]):
                    self.node_classes.add(c.name)
        self.iter_base = program.classes.get("AbstractIter")
        self.cfgs = {}

    # ----------------------------------------------------------- whole run
    def run(self, rounds=6):
        funcs = [f for f in self.p.all_funcs]
        for _ in range(rounds):
            before = dict(self.summ)
            for f in funcs:
                if f.outer is None:
                    self.analyze(f)
            if before == self.summ:
                break
        return self

    def infer_private_params(self):
        """Parameters of package-private functions (module-level `_name`, name-mangled
        methods, nested functions) that the naming convention leaves unknown get the
        join of what the package's own call sites pass.  Returns True if anything
        was learnt (the caller then re-runs the analysis)."""
        seen = {}
        for f, ft in list(self.results.items()):
            for node in ast.walk(f.node):
                if not isinstance(node, ast.Call):
                    continue
                res = ft.calls.get(id(node))
                if res is None or res.kind != "func" or not isinstance(res.target, Func):
                    continue
                t = res.target
                private = (t.cls is None and t.srcname.startswith("_") and not t.srcname.startswith("__")) or \
                    (t.cls is not None and t.srcname.startswith("__") and not t.srcname.endswith("__")) or t.outer is not None or \
                    (t.cls is not None and t.cls.name.startswith("_") and not t.srcname.startswith("__"))
                if not private:
                    continue
                ps = list(t.posparams)
                if t.selfname is not None:
                    ps = ps[1:]
                binds = []
                i = 0
                for a in node.args:
                    if isinstance(a, ast.Starred):
                        break
                    if i < len(ps):
                        binds.append((ps[i], a))
                    i += 1
                for k in node.keywords:
                    if k.arg in ps:
                        binds.append((k.arg, k.value))
                for prm, a in binds:
                    v = ft.type_of(a)
                    key = (t.where, prm)
                    if (v is None or is_top(v)) and key not in self.param_override and key not in self._pessimistic:
                        # optimistic start: an unknown argument is often derived from a parameter that is itself still
                        # being inferred (recursion, chains of private helpers); every inferred type is re-checked
                        # against all call sites on the following rounds and withdrawn if a site stays unknown
                        continue
                    seen[key] = join(seen.get(key), v if v is not None else TOP) if key in seen else (v if v is not None else TOP)
        learnt = False
        withdraw = []
        for (where, prm), v in seen.items():
            if (where, prm) in self.param_override and (where, prm) in self._optimistic:
                cur = self.param_override[(where, prm)]
                if v is None or is_top(v):
                    withdraw.append((where, prm))
                elif not v <= cur:
                    self.param_override[(where, prm)] = join(cur, v)
                    learnt = True
                continue
            if v is None or is_top(v) or not v:
                continue
            if (where, prm) in self.param_override:
                continue
            self._optimistic.add((where, prm))
            func = next((f for f in self.p.all_funcs if f.where == where), None)
            if func is None:
                continue
            cur = self._seed_by_name(func, prm)
            if is_top(cur):
                self.param_override[(where, prm)] = v
                learnt = True
            elif cur == FUNC and "none" in v:
                # a callback parameter that the package's own call sites may pass as None
                self.param_override[(where, prm)] = FUNC | NONE
                learnt = True
        if not learnt and withdraw:
            # nothing else is moving any more: a site that is still unknown stays unknown
            for key in withdraw:
                del self.param_override[key]
                self._pessimistic.add(key)
            learnt = True
        return learnt

    def run_interprocedural(self, rounds=6):
        self._optimistic, self._pessimistic = set(), set()
        self.run(rounds)
        converged = False
        for _ in range(14):
            if not self.infer_private_params():
                converged = True
                break
            self.summ, self.results, self.field_cache = {}, {}, {}
            self.run(rounds)
        if not converged:
            # no fixpoint in the budget: withdraw everything that was only assumed
            for key in list(self._optimistic):
                self.param_override.pop(key, None)
                self._pessimistic.add(key)
            self.summ, self.results, self.field_cache = {}, {}, {}
            self.run(rounds)
        return self

    def cfg_of(self, func):
        if func not in self.cfgs:
            self.cfgs[func] = CFG(func.node, func.body, name=func.where)
        return self.cfgs[func]

    # --------------------------------------------------------------- seeds
    def is_node_class(self, cls):
        return cls is not None and cls.name in self.node_classes

    def seed_params(self, func):
        env = {}
        defaults = func.defaults
        a = func.node.args
        selfname = func.selfname
        for name in func.params:
            key = (func.where, name)
            if key in self.param_override:
                env[name] = self.param_override[key]
                continue
            if name == selfname:
                env[name] = NODE if self.is_node_class(func.cls) else frozenset([("obj", func.cls.name)])
                continue
            v = self._seed_by_name(func, name)
            d = defaults.get(name)
            if d is not None and isinstance(d, ast.Constant) and d.value is None and not is_top(v):
                v = v | NONE
            if a.vararg is not None and a.vararg.arg == name:
                v = seq(NODE) if name in T.PARAM_SEQ else TOP
            if a.kwarg is not None and a.kwarg.arg == name:
                v = TOP
            env[name] = v
        return env

    PARAM_SPECIAL = {
        # (class or module-level function, param) -> V : the name convention does not apply
        ("findall_by_attr", "value"): TOP, ("find_by_attr", "value"): TOP, ("_filter_by_name", "value"): TOP,
        ("SymlinkNodeMixin.__setattr__", "value"): TOP, ("esc", "value"): TOP,
        ("DotExporter.esc", "value"): TOP, ("MermaidExporter.esc", "value"): TOP,
        ("Walker.walk", "start"): NODE, ("Walker.walk", "end"): NODE,
        ("Walker.__calc_common", "start"): NODE_SEQ, ("Walker.__calc_common", "end"): NODE_SEQ,
        ("ResolverError.__init__", "child"): TOP, ("ChildResolverError.__init__", "child"): TOP,
        ("CountError.__init__", "result"): NODE_SEQ,
        # documented precondition of the resolver API: paths are strings
        ("Resolver.get", "path"): STR, ("Resolver.glob", "path"): STR, ("Resolver.is_wildcard", "path"): STR,
    }

    def _seed_by_name(self, func, name):
        q = func.qual
        if (q, name) in self.PARAM_SPECIAL:
            return self.PARAM_SPECIAL[(q, name)]
        if name in T.OPT_INTS:
            return OPT_INT
        if name in T.CALLBACKS:
            return FUNC
        if name == "value" and func.kind == "setter" and self.is_node_class(func.cls) and func.srcname == "parent":
            return OPT_NODE
        if name in T.PARAM_NODE:
            return NODE
        if name == "parent":
            return OPT_NODE
        if name in T.PARAM_SEQ:
            return NODE_SEQ
        if name == "level":
            return INT
        return TOP

    # ------------------------------------------------------------ analysis
    def summary(self, func):
        if func in self.summ:
            return self.summ[func]
        if func in self._in_progress:
            return EMPTY
        self.analyze(func)
        return self.summ.get(func, EMPTY)

    def analyze(self, func, closure=None):
        if func in self._in_progress:
            return self.results.get(func)
        self._in_progress.add(func)
        try:
            return self._analyze(func, closure)
        finally:
            self._in_progress.discard(func)

    def _analyze(self, func, closure):
        cfg = self.cfg_of(func)
        ft = FuncTypes(func, cfg)
        init = dict(closure or {})
        if closure is None and func.outer is not None:
            outer = self.results.get(func.outer)
            if outer is not None:
                init.update(outer.env_join)
        init.update(self.seed_params(func))
        isgen = _is_generator(func.node)
        rets = [EMPTY]
        yields = [EMPTY]

        def transfer(n, st):
            if st is None:
                return None
            return self._transfer(func, ft, n, st, rets, yields)

        def joinenv(a, b):
            if a is None:
                return b
            if b is None:
                return a
            out = dict(a)
            for k, v in b.items():
                out[k] = join(out.get(k), v) if k in out else v
            return out

        ft.instate = forward_dataflow(cfg, init, transfer, None, joinenv)
        # final pass is implicit: expr types were joined during the fixpoint
        envj = {}
        for st in ft.instate.values():
            if st is None:
                continue
            for k, v in st.items():
                envj[k] = join(envj.get(k), v)
        ft.env_join = envj
        if isgen:
            ft.ret = seq(yields[0])
        else:
            ft.ret = rets[0]
            reach = cfg.reachable_nodes()
            if any(lab == "fall" and p_.id in reach and ft.instate.get(p_.id) is not None for p_, lab in cfg.exit.pred):
                ft.ret = join(ft.ret, NONE)
        self.results[func] = ft
        self.summ[func] = ft.ret
        for g in func.nested:
            self.analyze(g)
        return ft

    def _rec(self, ft, node, v):
        k = id(node)
        old = ft.expr.get(k)
        ft.expr[k] = v if old is None else join(old, v)
        return v

    # statements -----------------------------------------------------------
    def _transfer(self, func, ft, n, st, rets, yields):
        kind = n.kind
        if kind == "guard":
            key = norm(n.cond)
            if key in self.assume and self.assume[key] != n.outcome:
                return None
            return self._refine(n.cond, n.outcome, st)
        if kind == "test":
            self.ev(func, ft, n.cond, st)
            return st
        if kind == "foriter":
            self.ev(func, ft, n.ast.iter, st)
            return st
        if kind == "loopin":
            it = self.ev(func, ft, n.ast.iter, st)
            env = dict(st)
            self._bind(func, ft, n.ast.target, self._iter_elem(it), env)
            return env
        if kind == "return":
            if n.ast.value is not None:
                rets[0] = join(rets[0], self.ev(func, ft, n.ast.value, st))
            else:
                rets[0] = join(rets[0], NONE)
            return st
        if kind == "raisestmt":
            if n.ast.exc is not None:
                self.ev(func, ft, n.ast.exc, st)
            return st
        if kind == "assert":
            self.ev(func, ft, n.ast.test, st)
            if n.ast.msg is not None:
                self.ev(func, ft, n.ast.msg, st)
            return self._refine_expr(n.ast.test, True, st)
        if kind == "with":
            env = dict(st)
            for item in n.ast.items:
                self.ev(func, ft, item.context_expr, st)
                if item.optional_vars is not None:
                    self._bind(func, ft, item.optional_vars, TOP, env)
            return env
        if kind == "handler":
            env = dict(st)
            if n.ast.type is not None:
                self.ev(func, ft, n.ast.type, st)
            if n.ast.name:
                env[n.ast.name] = TOP
            return env
        if kind == "def":
            env = dict(st)
            if isinstance(n.ast, (ast.FunctionDef, ast.AsyncFunctionDef)):
                env[n.ast.name] = frozenset([("localfunc", n.ast.name)])
            return env
        if kind == "entry" and self._falls_off(func):
            pass
        if kind != "stmt":
            return st
        s = n.ast
        if isinstance(s, ast.Assign):
            v = self.ev(func, ft, s.value, st, yields)
            env = dict(st)
            for t in s.targets:
                self._bind(func, ft, t, v, env)
            return env
        if isinstance(s, ast.AugAssign):
            cur = self.ev(func, ft, s.target, st) if not isinstance(s.target, ast.Name) else st.get(s.target.id, TOP)
            if isinstance(s.target, ast.Name):
                self._rec(ft, s.target, cur)
            v = self.ev(func, ft, s.value, st, yields)
            res = self._binop(s.op, cur, v)
            env = dict(st)
            if isinstance(s.target, ast.Name):
                env[s.target.id] = res
            return env
        if isinstance(s, ast.AnnAssign):
            env = dict(st)
            if s.value is not None:
                v = self.ev(func, ft, s.value, st, yields)
                self._bind(func, ft, s.target, v, env)
            return env
        if isinstance(s, ast.Expr):
            self.ev(func, ft, s.value, st, yields)
            return st
        if isinstance(s, ast.Delete):
            env = dict(st)
            for t in s.targets:
                if isinstance(t, ast.Name):
                    env.pop(t.id, None)
                else:
                    self.ev(func, ft, t, st)
            return env
        return st

    def _falls_off(self, func):
        return False

    def _bind(self, func, ft, target, v, env):
        if isinstance(target, ast.Name):
            env[target.id] = v
            for k in [k for k in env if isinstance(k, str) and (k.startswith(target.id + ".") or k.startswith(target.id + "["))]:
                del env[k]
            self._rec(ft, target, v)
        elif isinstance(target, (ast.Tuple, ast.List)):
            n = len(target.elts)
            comps = [EMPTY] * n
            any_t = False
            if v is None or "top" in v:
                comps = [TOP] * n
            else:
                for a in v:
                    if isinstance(a, tuple) and a[0] == "tup" and len(a[1]) == n:
                        comps = [join(c, x) for c, x in zip(comps, a[1])]
                        any_t = True
                    elif isinstance(a, tuple) and a[0] in ("seq", "set"):
                        comps = [join(c, a[1]) for c in comps]
                        any_t = True
                    elif a == "none":
                        continue
                    else:
                        comps = [join(c, TOP) for c in comps]
                        any_t = True
                if not any_t:
                    comps = [TOP] * n
            for t, c in zip(target.elts, comps):
                if isinstance(t, ast.Starred):
                    self._bind(func, ft, t.value, seq(c), env)
                else:
                    self._bind(func, ft, t, c, env)
        elif isinstance(target, ast.Starred):
            self._bind(func, ft, target.value, v, env)
        else:
            # attribute / subscript store: evaluate the receiver for typing
            if isinstance(target, ast.Attribute):
                self.ev(func, ft, target.value, env)
                for k in [k for k in env if isinstance(k, str) and k.endswith("." + target.attr)]:
                    del env[k]  # an access-path refinement does not survive a store to that attribute
            elif isinstance(target, ast.Subscript):
                self.ev(func, ft, target.value, env)
                self.ev(func, ft, target.slice, env)

    def _iter_elem(self, v):
        """elements produced by iterating v, looking through iterator objects"""
        if v is None:
            return TOP
        out = EMPTY
        rest = EMPTY
        for a in v:
            if isinstance(a, tuple) and a[0] == "iter":
                out = join(out, self._iter_class_elem(a[1]))
            elif isinstance(a, tuple) and a[0] == "obj":
                cls = self.p.classes.get(a[1])
                m = cls.lookup("__iter__") if cls else None
                if isinstance(m, Func):
                    out = join(out, self._iter_elem(self.summary(m)))
                else:
                    out = join(out, TOP)
            elif a == "node":
                out = join(out, TOP)
            else:
                rest = rest | frozenset([a])
        if rest:
            out = join(out, elem(rest))
        return out

    def _iter_class_elem(self, clsname):
        cls = self.p.classes.get(clsname)
        if cls is None:
            return TOP
        m = cls.lookup("_iter")
        if isinstance(m, Func):
            return self._iter_elem(self.summary(m))
        return TOP

    # refinement ------------------------------------------------------------
    def _refine(self, cond, outcome, st):
        return self._refine_expr(cond, outcome, st)

    def _refine_expr(self, cond, outcome, st):
        # x is None / x is not None / None is x ; truthiness of a name
        if isinstance(cond, ast.UnaryOp) and isinstance(cond.op, ast.Not):
            return self._refine_expr(cond.operand, not outcome, st)
        if isinstance(cond, ast.BoolOp):
            if isinstance(cond.op, ast.And) and outcome:
                for v in cond.values:
                    st = self._refine_expr(v, True, st)
                    if st is None:
                        return None
                return st
            if isinstance(cond.op, ast.Or) and not outcome:
                for v in cond.values:
                    st = self._refine_expr(v, False, st)
                    if st is None:
                        return None
                return st
            return st
        if isinstance(cond, ast.Compare) and len(cond.ops) == 1:
            op = cond.ops[0]
            l, r = cond.left, cond.comparators[0]
            # exact-type tests: `type(x) is str`, `type(x) in (list, tuple)` - on the true side x is an instance of exactly
            # that builtin type, hence not a tree node (an isinstance() test proves nothing of the kind: a node class may
            # derive from str/list/tuple)
            tkey = None
            if isinstance(l, ast.Call) and isinstance(l.func, ast.Name) and l.func.id == "type" and len(l.args) == 1:
                a0 = l.args[0]
                if isinstance(a0, ast.Name) and a0.id in st:
                    tkey = a0.id
                elif path_key(a0) is not None:
                    tkey = path_key(a0)  # access path `self.node` (killed by a store to that attribute / a rebinding of the base)
            if tkey is not None and isinstance(op, (ast.Is, ast.IsNot, ast.Eq, ast.NotEq, ast.In, ast.NotIn)):
                if isinstance(op, (ast.In, ast.NotIn)):
                    names = [x.id for x in r.elts] if isinstance(r, (ast.Tuple, ast.List, ast.Set)) and all(isinstance(x, ast.Name) for x in r.elts) else None
                else:
                    names = [r.id] if isinstance(r, ast.Name) else None
                positive = outcome if isinstance(op, (ast.Is, ast.Eq, ast.In)) else not outcome
                builtin = {"str": STR, "int": INT, "bool": BOOL, "list": seq(TOP), "tuple": seq(TOP), "dict": OTHER,
                           "set": frozenset([("set", TOP)]), "frozenset": frozenset([("set", TOP)]), "float": OTHER, "bytes": OTHER}
                if names and positive and all(n_ in builtin for n_ in names):
                    nv = EMPTY
                    for n_ in names:
                        nv = join(nv, builtin[n_])
                    cur = st.get(tkey, TOP)
                    if not is_top(cur) and all(n_ in ("list", "tuple") for n_ in names):
                        keep = frozenset(a for a in cur if isinstance(a, tuple) and a[0] in ("seq", "tup"))
                        if keep:
                            nv = keep
                    env = dict(st)
                    env[tkey] = nv
                    return env
                return st
            name = None
            if isinstance(l, ast.Name) and isinstance(r, ast.Constant) and r.value is None:
                name = l.id
            elif isinstance(r, ast.Name) and isinstance(l, ast.Constant) and l.value is None:
                name = r.id
            if name is not None and isinstance(op, (ast.Is, ast.IsNot)) and name in st:
                is_none = outcome if isinstance(op, ast.Is) else not outcome
                v = st[name]
                if "top" in v:
                    return st
                env = dict(st)
                if is_none:
                    if "none" not in v:
                        return None  # infeasible
                    env[name] = NONE
                else:
                    nv = v - NONE
                    if not nv:
                        return None
                    env[name] = nv
                return env
            return st
        if isinstance(cond, ast.Call) and isinstance(cond.func, ast.Name) and cond.func.id == "hasattr" and len(cond.args) == 2 \
                and isinstance(cond.args[1], ast.Constant) and cond.args[1].value in T.READONLY_MEMBERS and not outcome:
            # an object without one of the navigation attributes is not a tree node
            a0 = cond.args[0]
            key = a0.id if isinstance(a0, ast.Name) else path_key(a0)
            if key is not None:
                env = dict(st)
                env[key] = TOP
                return env
            return st
        if isinstance(cond, ast.Name) and cond.id in st:
            v = st[cond.id]
            if "top" in v:
                return st
            if outcome and "none" in v:
                nv = v - NONE
                if not nv:
                    return None
                env = dict(st)
                env[cond.id] = nv
                return env
        return st

    # expressions -----------------------------------------------------------
    def ev(self, func, ft, e, env, yields=None):
        v = self._ev(func, ft, e, env, yields)
        if v is None:
            v = TOP
        return self._rec(ft, e, v)

    def _ev(self, func, ft, e, env, yields):
        ev = lambda x, en=env: self.ev(func, ft, x, en, yields)  # noqa: E731
        if isinstance(e, ast.Constant):
            val = e.value
            if val is None:
                return NONE
            if isinstance(val, bool):
                return BOOL
            if isinstance(val, int):
                return INT
            if isinstance(val, str):
                return STR
            return OTHER
        if isinstance(e, ast.Name):
            if e.id in env:
                return env[e.id]
            # a free name of a nested function that denotes a function defined in an enclosing scope (incl. itself)
            scope = func
            while scope is not None:
                if any(g.srcname == e.id for g in scope.nested):
                    return frozenset([("localfunc", e.id)])
                scope = scope.outer
            return self._global_name(func, e.id)
        if isinstance(e, ast.Attribute):
            recv = ev(e.value)
            if path_key(e) in env:
                return env[path_key(e)]  # refined by an exact-type test on this access path
            return self._attr(func, ft, e, recv)
        if isinstance(e, ast.Call):
            return self._call(func, ft, e, env, yields)
        if isinstance(e, ast.Subscript):
            recv = ev(e.value)
            if path_key(e) in env:
                return env[path_key(e)]
            if recv is not None and not is_top(recv) and "none" in recv and recv - NONE:
                # the value of `x[i]` when it has one: None is not subscriptable (that failure is the None rules' subject)
                recv = recv - NONE
            if isinstance(e.slice, ast.Slice):
                for part in (e.slice.lower, e.slice.upper, e.slice.step):
                    if part is not None:
                        ev(part)
                if is_top(recv):
                    return TOP
                out = EMPTY
                for a in recv:
                    if isinstance(a, tuple) and a[0] == "tup":
                        c = EMPTY
                        for x in a[1]:
                            c = join(c, x)
                        out = join(out, seq(c))
                    elif isinstance(a, tuple) and a[0] == "seq":
                        out = join(out, frozenset([a]))
                    elif a == "str":
                        out = join(out, STR)
                    else:
                        out = join(out, TOP)
                return out
            ev(e.slice)
            if is_top(recv):
                return TOP
            if isinstance(e.slice, ast.Constant) and isinstance(e.slice.value, int):
                out = EMPTY
                ok = True
                for a in recv:
                    if isinstance(a, tuple) and a[0] == "tup":
                        i = e.slice.value
                        if -len(a[1]) <= i < len(a[1]):
                            out = join(out, a[1][i])
                        else:
                            ok = False
                    elif isinstance(a, tuple) and a[0] == "seq":
                        out = join(out, a[1])
                    elif a == "str":
                        out = join(out, STR)
                    else:
                        ok = False
                return out if ok else TOP
            return elem(recv)
        if isinstance(e, ast.BinOp):
            l, r = ev(e.left), ev(e.right)
            return self._binop(e.op, l, r)
        if isinstance(e, ast.BoolOp):
            out = EMPTY
            cur = env
            vals = []
            for i, v in enumerate(e.values):
                tv = self.ev(func, ft, v, cur, yields)
                vals.append(tv)
                if cur is not None:
                    nxt = self._refine_expr(v, isinstance(e.op, ast.And), cur)
                    cur = nxt if nxt is not None else cur
            for i, tv in enumerate(vals):
                last = i == len(vals) - 1
                if isinstance(e.op, ast.Or) and not last and not is_top(tv):
                    tv = tv - NONE
                out = join(out, tv)
            return out
        if isinstance(e, ast.UnaryOp):
            v = ev(e.operand)
            if isinstance(e.op, ast.Not):
                return BOOL
            return INT if v == INT else TOP
        if isinstance(e, ast.Compare):
            ev(e.left)
            for c in e.comparators:
                ev(c)
            return BOOL
        if isinstance(e, ast.IfExp):
            ev(e.test)
            et = self._refine_expr(e.test, True, env)
            ef = self._refine_expr(e.test, False, env)
            a = self.ev(func, ft, e.body, et if et is not None else env, yields)
            b = self.ev(func, ft, e.orelse, ef if ef is not None else env, yields)
            return join(a, b)
        if isinstance(e, ast.Tuple):
            comps = []
            for x in e.elts:
                if isinstance(x, ast.Starred):
                    comps.append(elem(ev(x.value)))
                    self._rec(ft, x, comps[-1])
                else:
                    comps.append(ev(x))
            if len(comps) >= 2 and not any(isinstance(x, ast.Starred) for x in e.elts):
                return tup(*comps)
            c = EMPTY
            for x in comps:
                c = join(c, x)
            return seq(c)
        if isinstance(e, (ast.List, ast.Set)):
            c = EMPTY
            for x in e.elts:
                if isinstance(x, ast.Starred):
                    t = elem(ev(x.value))
                    self._rec(ft, x, t)
                else:
                    t = ev(x)
                c = join(c, t)
            return seq(c) if isinstance(e, ast.List) else frozenset([("set", c)])
        if isinstance(e, ast.Dict):
            for k in e.keys:
                if k is not None:
                    ev(k)
            for v in e.values:
                ev(v)
            return OTHER
        if isinstance(e, (ast.ListComp, ast.GeneratorExp, ast.SetComp, ast.DictComp)):
            cenv = dict(env)
            for g in e.generators:
                it = self.ev(func, ft, g.iter, cenv, yields)
                self._bind(func, ft, g.target, self._iter_elem(it), cenv)
                for c in g.ifs:
                    self.ev(func, ft, c, cenv, yields)
                    r = self._refine_expr(c, True, cenv)
                    if r is not None:
                        cenv = r
            if isinstance(e, ast.DictComp):
                self.ev(func, ft, e.key, cenv, yields)
                self.ev(func, ft, e.value, cenv, yields)
                return OTHER
            t = self.ev(func, ft, e.elt, cenv, yields)
            return frozenset([("set", t)]) if isinstance(e, ast.SetComp) else seq(t)
        if isinstance(e, ast.Lambda):
            return FUNC
        if isinstance(e, ast.JoinedStr):
            for v in e.values:
                if isinstance(v, ast.FormattedValue):
                    ev(v.value)
            return STR
        if isinstance(e, ast.FormattedValue):
            ev(e.value)
            return STR
        if isinstance(e, ast.Yield):
            if e.value is not None:
                v = ev(e.value)
                if yields is not None:
                    yields[0] = join(yields[0], v)
            elif yields is not None:
                yields[0] = join(yields[0], NONE)
            return TOP
        if isinstance(e, ast.YieldFrom):
            v = ev(e.value)
            if yields is not None:
                yields[0] = join(yields[0], self._iter_elem(v))
            return TOP
        if isinstance(e, ast.NamedExpr):
            v = ev(e.value)
            if isinstance(e.target, ast.Name):
                env[e.target.id] = v
            return v
        if isinstance(e, ast.Starred):
            return elem(ev(e.value))
        if isinstance(e, ast.Slice):
            return OTHER
        return TOP

    def _binop(self, op, l, r):
        if is_top(l) or is_top(r):
            # "%" with a str on the left is always a str
            if isinstance(op, ast.Mod) and l == STR:
                return STR
            return TOP
        if isinstance(op, ast.Mod) and "str" in l:
            return STR
        if isinstance(op, ast.Add):
            ls = [a for a in l if isinstance(a, tuple) and a[0] in ("seq", "tup")]
            rs = [a for a in r if isinstance(a, tuple) and a[0] in ("seq", "tup")]
            if ls or rs:
                return seq(join(elem(frozenset(ls)) if ls else EMPTY, elem(frozenset(rs)) if rs else EMPTY))
            if l == STR and r == STR:
                return STR
        if l <= (INT | BOOL) and r <= (INT | BOOL):
            return INT
        if isinstance(op, ast.Mult) and (l == STR or r == STR):
            return STR
        if isinstance(op, ast.BitOr) or isinstance(op, ast.BitAnd):
            return INT if (l <= INT | OTHER and r <= INT | OTHER) else TOP
        return TOP

    def _global_name(self, func, name):
        r = self.p.resolve_name(func.module, name)
        if r is None:
            if name in T.PURE_BUILTINS or name in T.EXC_BUILTINS or name in T.EFFECT_BUILTINS:
                return frozenset([("builtin", name)])
            if name in ("True", "False"):
                return BOOL
            return TOP
        kind, target = r
        if kind == "class":
            return frozenset([("class", target.name)])
        if kind == "func":
            return frozenset([("gfunc", target.module.relpath + "::" + target.name)])
        if kind == "module":
            return frozenset([("mod", target)])
        if kind == "ext":
            return frozenset([("ext", target)])
        if kind == "const":
            if name == "ASSERTIONS":
                return BOOL
            if isinstance(target, ast.Constant):
                return self._ev(func, None, target, {}, None) if False else (
                    INT if isinstance(target.value, int) and not isinstance(target.value, bool) else
                    STR if isinstance(target.value, str) else OTHER)
            return OTHER
        return TOP

    # attribute loads ------------------------------------------------------
    def field_type(self, cls, attr):
        """Type of ``self.attr`` for a non-node class: join of what its own
        methods store there (``self.attr = <expr>``), seeded by parameters."""
        key = (cls.name, attr)
        if key in self.field_cache:
            return self.field_cache[key]
        self.field_cache[key] = TOP  # recursion guard
        out = None
        for c in cls.mro():
            for f in c.funcs():
                sn = f.selfname
                if sn is None:
                    continue
                for node in ast.walk(f.node):
                    tgt_val = []
                    if isinstance(node, ast.Assign):
                        for t in node.targets:
                            tgt_val.append((t, node.value))
                            if isinstance(t, ast.Tuple) and isinstance(node.value, ast.Tuple) and len(t.elts) == len(node.value.elts):
                                tgt_val.extend(zip(t.elts, node.value.elts))
                    for t, val in tgt_val:
                        if isinstance(t, ast.Attribute) and isinstance(t.value, ast.Name) and t.value.id == sn \
                                and mangle(c.name, t.attr) == attr:
                            env = self.seed_params(f)
                            tmp = FuncTypes(f, None)
                            v = self.ev(f, tmp, val, env)
                            out = join(out, v)
        if out is None:
            out = TOP
        self.field_cache[key] = out
        return out

    def _attr(self, func, ft, e, recv):
        attr = e.attr
        mattr = mangle(func.cls.name, attr) if func.cls is not None else attr
        if recv is None or "top" in recv:
            return TOP
        out = EMPTY
        for a in recv:
            if a == "node":
                out = join(out, self._node_attr(func, attr, mattr))
            elif a == "none":
                continue
            elif isinstance(a, tuple) and a[0] == "obj":
                cls = self.p.classes.get(a[1])
                out = join(out, self._obj_attr(cls, attr, mattr) if cls else TOP)
            elif isinstance(a, tuple) and a[0] == "class":
                cls = self.p.classes.get(a[1])
                out = join(out, self._class_attr(cls, mattr) if cls else TOP)
            elif isinstance(a, tuple) and a[0] == "mod":
                mod = self.p.by_dotted.get(a[1])
                out = join(out, self._global_name_in(mod, attr) if mod else TOP)
            elif isinstance(a, tuple) and a[0] == "ext":
                out = join(out, frozenset([("ext", a[1] + "." + attr)]))
            elif isinstance(a, tuple) and a[0] == "iter":
                cls = self.p.classes.get(a[1])
                out = join(out, self._obj_attr(cls, attr, mattr) if cls else TOP)
            else:
                out = join(out, frozenset([("bound", attr)]) if attr in T.PURE_METHODS | T.MUTATING_METHODS else TOP)
        return out

    def _global_name_in(self, mod, name):
        r = self.p.resolve_name(mod, name)
        if r is None:
            return TOP
        kind, target = r
        if kind == "class":
            return frozenset([("class", target.name)])
        if kind == "func":
            return frozenset([("gfunc", target.module.relpath + "::" + target.name)])
        if kind == "module":
            return frozenset([("mod", target)])
        if kind == "ext":
            return frozenset([("ext", target)])
        return OTHER

    def _node_attr(self, func, attr, mattr):
        if attr in T.NODE_ATTR_OPTNODE:
            return OPT_NODE
        if attr in T.NODE_ATTR_NODE:
            return NODE
        if attr in T.NODE_ATTR_SEQ:
            return NODE_SEQ
        if attr in T.NODE_ATTR_BOOL:
            return BOOL
        if attr in T.NODE_ATTR_INT:
            return INT
        if attr in T.NODE_ATTR_STR:
            return STR
        for m in T.MIXINS:
            if mattr == "_%s__parent" % m:
                return OPT_NODE
            if mattr == "_%s__children" % m:
                return NODE_SEQ
        if attr in T.HOOKS:
            return frozenset([("hook", attr)])
        if attr == "__dict__":
            return OTHER
        # any other member of the mixins: property -> getter summary, method -> bound
        out = None
        for m in T.MIXINS:
            cls = self.p.classes.get(m)
            if cls is None:
                continue
            mem = cls.members.get(mattr)
            if mem is None:
                mem = cls.members.get(mangle(m, attr))
            if isinstance(mem, Prop) and mem.getter is not None:
                out = join(out, self.summary(mem.getter))
            elif isinstance(mem, Func):
                out = join(out, frozenset([("nodemeth", mem.name)]))
        return out if out is not None else TOP

    def _obj_attr(self, cls, attr, mattr):
        mem = cls.lookup(mattr)
        if mem is None:
            mem = cls.lookup(attr)
        if isinstance(mem, Prop) and mem.getter is not None:
            return self.summary(mem.getter)
        if isinstance(mem, Func):
            return frozenset([("meth", cls.name + "." + mem.name)])
        for c in cls.mro():
            if mattr in c.assigns:
                return OTHER
        return self.field_type(cls, mattr)

    def _class_attr(self, cls, mattr):
        mem = cls.lookup(mattr)
        if isinstance(mem, Func):
            return frozenset([("meth", cls.name + "." + mem.name)])
        if isinstance(mem, Prop):
            return OTHER
        return OTHER

    # calls ------------------------------------------------------------------
    def _call(self, func, ft, e, env, yields):
        ev = lambda x: self.ev(func, ft, x, env, yields)  # noqa: E731
        argv = []
        for a in e.args:
            if isinstance(a, ast.Starred):
                v = ev(a.value)
                self._rec(ft, a, elem(v))
                argv.append(("*", v))
            else:
                argv.append(("", ev(a)))
        kwv = {}
        for k in e.keywords:
            v = ev(k.value)
            kwv[k.arg] = v
        self._cur_env = env
        res, typ = self._resolve_call(func, ft, e, env, argv, kwv, yields)
        if isinstance(e.func, ast.Attribute) and isinstance(e.func.value, ast.Name) and e.func.value.id == "dict" \
                and e.func.attr == "fromkeys" and argv and argv[0][0] == "" and (typ is None or is_top(typ) or typ == OTHER):
            # iterating the result yields the keys: the elements of the argument, each once
            k = self._iter_elem(argv[0][1])
            typ = seq(k) if k is not None else typ
        if isinstance(e.func, ast.Attribute) and e.func.attr in ("get", "pop") and e.args and isinstance(e.args[0], ast.Constant) \
                and isinstance(e.args[0].value, str) and (typ is None or is_top(typ)):
            # a saved instance dict (pickle state) read under the name of a link field: the parent entry is a node or None,
            # the children entry a list of nodes (plus whatever the default is)
            key = e.args[0].value
            link = None
            for m_ in T.MIXINS:
                if key == "_%s__parent" % m_:
                    link = OPT_NODE
                elif key == "_%s__children" % m_:
                    link = NODE_SEQ
            if link is not None:
                d_ = argv[1][1] if len(argv) > 1 and argv[1][0] == "" else NONE
                typ = join(link, d_) if d_ is not None and not is_top(d_) else link
        if ft is not None:
            ft.calls[id(e)] = res
        return typ

    def _track_mutation(self, f, env, argv):
        """x.append(v) / x.extend(s) / x.insert(i, v) on a local list: widen x."""
        if not (isinstance(f, ast.Attribute) and isinstance(f.value, ast.Name) and env is not None):
            return
        name = f.value.id
        cur = env.get(name)
        if cur is None or is_top(cur) or not any(isinstance(a, tuple) and a[0] == "seq" for a in cur):
            return
        add = None
        if f.attr == "append" and len(argv) == 1:
            add = argv[0][1]
        elif f.attr == "insert" and len(argv) == 2:
            add = argv[1][1]
        elif f.attr == "extend" and len(argv) == 1:
            add = self._iter_elem(argv[0][1])
        if add is not None:
            env[name] = join(cur, seq(add))

    def _arg(self, argv, i):
        if i < len(argv) and argv[i][0] == "":
            return argv[i][1]
        if i < len(argv):
            return elem(argv[i][1])
        return None

    def _resolve_call(self, func, ft, e, env, argv, kwv, yields):
        f = e.func
        # super().m(...) / super(C, self).m(...)
        if isinstance(f, ast.Attribute) and isinstance(f.value, ast.Call) and isinstance(f.value.func, ast.Name) \
                and f.value.func.id == "super" and func.cls is not None:
            self._rec(ft, f.value, OTHER)
            self._rec(ft, f, OTHER)
            if ft is not None:
                ft.calls[id(f.value)] = CallRes("builtin", None, "super")
            for a in f.value.args:
                self.ev(func, ft, a, env, yields)
            for b in func.cls.mro()[1:]:
                mem = b.members.get(mangle(b.name, f.attr), b.members.get(f.attr))
                if isinstance(mem, Func):
                    return CallRes("func", mem, "super." + f.attr), self.summary(mem)
            return CallRes("builtin", None, "super()." + f.attr), NONE if f.attr in ("__init__", "__setattr__") else TOP
        fv = self.ev(func, ft, f, env, yields)
        name = norm(f)
        # callback parameters / fields (opaque user code)
        cbname = f.id if isinstance(f, ast.Name) else (f.attr if isinstance(f, ast.Attribute) else None)
        known = [a for a in (fv or ()) if isinstance(a, tuple) and a[0] in ("gfunc", "meth", "class", "nodemeth")]
        if cbname in T.CALLBACKS and (not known or (fv is not None and any(not (isinstance(a, tuple) and a[0] in ("gfunc", "meth", "class", "nodemeth")) and a != "none" for a in fv))):
            typ = TOP
            if cbname == "nodecls":
                typ = NODE  # the node class handed to an importer: calling it builds a tree node
            if cbname in T.CALLBACKS_SEQ_PRESERVING:
                a0 = self._arg(argv, 0)
                if a0 is not None and not is_top(a0):
                    typ = seq(elem(a0))
            return CallRes("callback", None, cbname), typ
        if fv is None or "top" in fv or not fv:
            if isinstance(f, ast.Attribute) and f.attr in (T.PURE_METHODS | T.MUTATING_METHODS):
                recv = ft.expr.get(id(f.value)) if ft is not None else None
                self._track_mutation(f, env, argv)
                return CallRes("method", None, f.attr, recv), self._method(f.attr, recv, argv)
            return CallRes("unknown", None, name), TOP
        out = None
        res = None
        for a in fv:
            r, t = self._call_atom(func, ft, e, a, argv, kwv, name)
            out = join(out, t)
            res = r if res is None or res.kind == r.kind else CallRes("unknown", None, name)
        return res, out

    def _call_atom(self, func, ft, e, a, argv, kwv, name):
        if isinstance(a, tuple):
            k = a[0]
            if k == "builtin":
                return CallRes("builtin", None, a[1]), self._builtin(a[1], argv, kwv)
            if k == "gfunc":
                rel, fn = a[1].split("::")
                target = self.p.modules[rel].functions[fn]
                return CallRes("func", target, fn), self.summary(target)
            if k == "localfunc":
                scope = func
                while scope is not None:
                    for g in scope.nested:
                        if g.srcname == a[1]:
                            return CallRes("func", g, a[1]), self.summary(g)
                    scope = scope.outer
                return CallRes("unknown", None, name), TOP
            if k == "meth":
                cn, mn = a[1].split(".", 1)
                mem = self.p.classes[cn].lookup(mn)
                if isinstance(mem, Func):
                    return CallRes("func", mem, a[1]), self.summary(mem)
                return CallRes("unknown", None, name), TOP
            if k == "nodemeth":
                targets = []
                out = None
                for m in T.MIXINS:
                    cls = self.p.classes.get(m)
                    mem = cls.members.get(a[1]) if cls else None
                    if mem is None and cls is not None:
                        # same source name, other mixin's mangling
                        for mm in T.MIXINS:
                            pre = "_%s__" % mm
                            if a[1].startswith(pre):
                                mem = cls.members.get("_%s__%s" % (m, a[1][len(pre):]))
                    if isinstance(mem, Func):
                        targets.append(mem)
                        out = join(out, self.summary(mem))
                if func.cls is not None and func.cls.name in T.MIXINS:
                    own = [t for t in targets if t.cls is func.cls]
                    if own:
                        return CallRes("func", own[0], a[1]), self.summary(own[0])
                if targets:
                    if a[1] in T.NODE_METHOD_SEQ:
                        out = NODE_SEQ
                    return CallRes("func", targets[0] if len(targets) == 1 else targets, a[1]), out
                return CallRes("unknown", None, name), TOP
            if k == "hook":
                return CallRes("hook", None, a[1]), NONE
            if k == "class":
                cls = self.p.classes[a[1]]
                if self.iter_base is not None and cls.is_subclass_of(self.iter_base):
                    return CallRes("ctor", cls, a[1]), frozenset([("iter", cls.name)])
                if cls.name in self.node_classes:
                    return CallRes("ctor", cls, a[1]), NODE
                return CallRes("ctor", cls, a[1]), frozenset([("obj", cls.name)])
            if k == "ext":
                return CallRes("ext", None, a[1]), self._ext(a[1], argv)
            if k == "bound":
                recv = ft.expr.get(id(e.func.value)) if isinstance(e.func, ast.Attribute) and ft is not None else None
                self._track_mutation(e.func, self._cur_env, argv)
                return CallRes("method", None, a[1], recv), self._method(a[1], recv, argv)
            if k == "obj":
                cls = self.p.classes.get(a[1])
                mem = cls.lookup("__call__") if cls else None
                if isinstance(mem, Func):
                    return CallRes("func", mem, a[1] + ".__call__"), self.summary(mem)
        if a == "func":
            return CallRes("unknown", None, name), TOP
        return CallRes("unknown", None, name), TOP

    def _builtin(self, name, argv, kwv):
        a0 = self._arg(argv, 0)
        if name in ("tuple", "list", "reversed", "sorted", "iter"):
            if a0 is None:
                return seq(EMPTY)
            return seq(self._iter_elem(a0))
        if name == "filter":
            a1 = self._arg(argv, 1)
            return seq(self._iter_elem(a1)) if a1 is not None else TOP
        if name in ("set", "frozenset"):
            return frozenset([("set", self._iter_elem(a0) if a0 is not None else EMPTY)])
        if name == "zip":
            if any(k == "*" for k, _ in argv):
                inner = EMPTY
                for k, v in argv:
                    inner = join(inner, self._iter_elem(self._iter_elem(v)) if k == "*" else self._iter_elem(v))
                return seq(seq(inner))
            return seq(tup(*[self._iter_elem(v) for _, v in argv])) if len(argv) >= 2 else seq(seq(self._iter_elem(a0) if a0 else EMPTY))
        if name == "enumerate":
            return seq(tup(INT, self._iter_elem(a0))) if a0 is not None else TOP
        if name in ("max", "min"):
            if len(argv) == 1:
                return self._iter_elem(a0)
            out = EMPTY
            for _, v in argv:
                out = join(out, v)
            return out
        if name == "next":
            v = self._iter_elem(a0) if a0 is not None else TOP
            if len(argv) >= 2 and not is_top(v):
                v = join(v, argv[1][1] if argv[1][1] is not None else TOP)  # next(it, default)
            return v
        if name == "id":
            return ID
        if name in ("len", "int", "sum", "abs"):
            return INT
        if name in ("str", "repr", "hex"):
            return STR
        if name in ("any", "all", "isinstance", "hasattr", "callable", "bool", "issubclass"):
            return BOOL
        if name == "getattr":
            return TOP
        if name in ("dict", "range", "map", "type", "super", "object", "print"):
            return OTHER if name != "map" else TOP
        if name in T.EXC_BUILTINS:
            return frozenset([("obj", name)])
        return TOP

    def _ext(self, dotted, argv):
        if dotted in ("collections.deque", "deque"):
            # a deque is a sequence of what it was built from (append/extend/pop/popleft like a list)
            a0 = self._arg(argv, 0)
            return seq(self._iter_elem(a0)) if a0 is not None else seq(EMPTY)
        if dotted in ("re.escape", "six.text_type", "json.dumps"):
            return STR
        if dotted in ("json.loads", "json.load"):
            return TOP
        if dotted in ("warnings.warn", "json.dump"):
            return NONE
        return OTHER if dotted in T.EXT_EFFECTFUL else TOP

    def _method(self, name, recv, argv):
        if recv is None or is_top(recv):
            return TOP
        if "str" in recv and recv <= STR | NONE:
            if name in ("split", "splitlines"):
                return seq(STR)
            if name in ("startswith", "endswith"):
                return BOOL
            if name in ("index", "count"):
                return INT
            return STR
        if any(isinstance(a, tuple) and a[0] in ("seq", "tup") for a in recv):
            if name in ("index", "count"):
                return INT
            if name in ("pop", "popleft"):
                return elem(recv)
            if name == "copy":
                return recv
            if name in T.MUTATING_METHODS:
                return NONE
        return TOP
