"""Abstract event traces of the mixins' structural entry points (DESIGN 3.4).

A small abstract interpreter over the *source* of one mixin class: it walks
the statements of an entry point (parent.setter, children.setter,
children.deleter), inlines every callee that is a member of the same class
(private helpers, property accessors), treats hooks and unknown callees as
opaque may-raise events, unrolls loops a bounded number of times and forks at
every branch whose outcome is not determined by the symbolic roles.  Values
are *roles* (symbolic names such as "the entry receiver", "its stored
parent", "k-th element of the validated tuple"), never concrete objects;
nothing is executed and no solver is involved.

The result is a finite set of event traces; the rule modules (C01, C02, C03,
C16) are typestate / ordering checks over these traces."""

import ast

from . import tables as T
from .model import AnalysisError, Func, Prop, mangle, norm

NONE = ("none",)


class Event:
    __slots__ = ("kind", "func", "node", "frame", "name", "recv", "args", "field", "value", "exc", "a", "b",
                 "outcome", "text", "depth")

    def __init__(self, kind, func, node, frame, **kw):
        self.kind = kind
        self.func = func
        self.node = node
        self.frame = frame
        for k in ("name", "recv", "args", "field", "value", "exc", "a", "b", "outcome", "text", "depth"):
            setattr(self, k, kw.get(k))

    def stmt_text(self):
        return " ".join(norm(self.node).split()) if self.node is not None else ""

    def brief(self):
        k = self.kind
        if k == "HOOK":
            return "HOOK %s(%s) on %s" % (self.name, ", ".join(label(a) for a in self.args), label(self.recv))
        if k == "WRITE":
            return "WRITE %s.%s := %s" % (label(self.recv), self.field, label(self.value))
        if k == "RAISE":
            return "RAISE %s" % self.exc
        if k == "GUARD":
            return "GUARD %s(%s, %s)=%s" % (self.name, label(self.a), label(self.b) if self.b else self.text, self.outcome)
        if k in ("ENTER", "EXIT", "REENTER"):
            return "%s %s" % (k, self.name)
        return "%s %s" % (k, self.text or self.name or "")

    def __repr__(self):
        return "<%s>" % self.brief()


def label(role):
    """Human-readable, iteration-independent description of a role."""
    if role is None:
        return "?"
    k = role[0]
    if k == "none":
        return "None"
    if k == "obj":
        return role[1]
    if k == "arg":
        return "arg:%s" % role[1]
    if k == "parent_of":
        return "parent0(%s)" % label(role[1])
    if k == "elem":
        return "elem(%s)" % label(role[1])
    if k == "tuple":
        return "tuple(%s)" % label(role[1])
    if k == "snapshot":
        return "children@%d(%s)" % (role[2], label(role[1]))
    if k == "children0":
        return "children0(%s)" % label(role[1])
    if k == "list_of":
        return "list(%s)" % label(role[1])
    if k == "without":
        return "%s−%s" % (label(role[1]), label(role[2]))
    if k == "append":
        return "%s+%s" % (label(role[1]), label(role[2]))
    if k == "chain":
        return "chain(%s)" % label(role[1])
    if k == "unknown":
        return "?%s" % role[1]
    return "%s(%s)" % (k, ",".join(_lab(x) for x in role[1:]))


def _lab(x):
    if isinstance(x, tuple):
        if x and isinstance(x[0], str):
            return label(x)
        return "[%s]" % ",".join(_lab(y) for y in x)
    return str(x)


class St:
    """One abstract execution state (copied on fork)."""
    __slots__ = ("env", "store", "trace", "epoch", "facts", "curexc")

    def __init__(self):
        self.env = {}
        self.store = {}
        self.trace = ()
        self.epoch = {}
        self.facts = frozenset()
        self.curexc = None

    def copy(self):
        s = St()
        s.env = dict(self.env)
        s.store = dict(self.store)
        s.trace = self.trace
        s.epoch = dict(self.epoch)
        s.facts = self.facts
        s.curexc = self.curexc
        return s

    def emit(self, ev):
        self.trace = (self.trace, ev)  # cons cell; flattened by flat()

    def flat(self):
        out = []
        t = self.trace
        while t:
            t, ev = t
            out.append(ev)
        out.reverse()
        return tuple(out)


class Exc:
    """An exception in flight."""
    __slots__ = ("cls", "origin", "event")

    def __init__(self, cls, origin, event):
        self.cls = cls  # class name, or "<hook>" / "<unknown>" / "<useriter>" / "<assert>"
        self.origin = origin  # kind of raise point: raise hook useriter unknown assert reenter
        self.event = event


class Frame:
    def __init__(self, fid, func, parent, recv):
        self.id = fid
        self.func = func
        self.parent = parent
        self.recv = recv

    def stack(self):
        f, out = self, []
        while f is not None:
            out.append(f.func)
            f = f.parent
        return out


class Interp:
    def __init__(self, program, cls, unroll=2, max_traces=60000):
        self.p = program
        self.cls = cls
        self.unroll = unroll
        self.max_traces = max_traces
        self.frames = []
        self.link_parent = "_%s__parent" % cls.name
        self.link_children = "_%s__children" % cls.name
        self.exc_parent = self._exc_hierarchy()
        self.n_forks = 0
        self.cut_paths = 0
        self._irr_cache = {}

    # ------------------------------------------------------------------ API
    def run_entry(self, func):
        """All abstract traces of an entry point: list of (trace, outcome)
        with outcome ('return', role) or ('raise', Exc)."""
        st = St()
        recv = ("obj", "n")
        frame = self._frame(func, None, recv)
        st.env = {}
        params = func.posparams
        st.env[params[0]] = recv
        for p in params[1:]:
            st.env[p] = ("arg", p)
        st.emit(Event("ENTER", func, func.node, frame.id, name=func.qual, recv=recv, depth=0))
        out = []
        for s2, ctl in self._block(func.body, st, frame):
            if ctl is None or ctl[0] == "return":
                out.append((s2.flat(), ("return", ctl[1] if ctl else NONE), s2))
            elif ctl[0] == "raise":
                out.append((s2.flat(), ("raise", ctl[1]), s2))
            else:
                raise AnalysisError("break/continue escaped %s" % func.where)
            if len(out) > self.max_traces:
                raise AnalysisError("trace explosion in %s" % func.where)
        return out

    # ------------------------------------------------------------- plumbing
    def _frame(self, func, parent, recv):
        f = Frame(len(self.frames), func, parent, recv)
        self.frames.append(f)
        return f

    def _exc_hierarchy(self):
        par = dict(T.BUILTIN_EXC_PARENT)
        for c in self.p.classes.values():
            bases = [b.name for b in c.bases] + [b for b in c.ext_bases]
            if bases:
                par.setdefault(c.name, bases[0])
        return par

    def _is_subexc(self, cls, catch):
        if cls in ("<hook>", "<unknown>", "<useriter>", "<reenter>"):
            # arbitrary user exception: caught by Exception/BaseException handlers only
            return catch in ("Exception", "BaseException")
        if cls == "<assert>":
            cls = "AssertionError"
        seen = set()
        while cls is not None and cls not in seen:
            if cls == catch:
                return True
            seen.add(cls)
            cls = self.exc_parent.get(cls)
        return False

    def _member(self, name):
        """class member for a *source* attribute name used inside the class"""
        m = self.cls.members.get(mangle(self.cls.name, name))
        return m

    # ---------------------------------------------------------------- roles
    def cur_parent(self, st, x):
        if (x, "parent") in st.store:
            return st.store[(x, "parent")]
        return self.initial_parent(st, x)

    def initial_parent(self, st, x):
        # C01 invariant at entry (inductive hypothesis): an element of R's
        # children tuple taken at epoch 0 has parent R
        if x[0] == "elem" and x[1][0] == "snapshot" and x[1][2] == 0:
            return x[1][1]
        return ("parent_of", x)

    def cur_list(self, st, r):
        return st.store.get((r, "children"), ("children0", r))

    def known_identity(self, st, a, b):
        if a == b:
            return True
        for x, y in ((a, b), (b, a)):
            if x == NONE:
                if y[0] == "obj" or ("nonnull", y) in st.facts:
                    return False
                if ("isnone", y) in st.facts:
                    return True
                if y[0] in ("elem", "tuple", "snapshot", "list_of", "without", "append", "children0", "chain", "const", "literal"):
                    return False
        if ("same", a, b) in st.facts or ("same", b, a) in st.facts:
            return True
        if ("diff", a, b) in st.facts or ("diff", b, a) in st.facts:
            return False
        if a != NONE and b != NONE:
            if ("isnone", a) in st.facts and (b[0] == "obj" or ("nonnull", b) in st.facts):
                return False
            if ("isnone", b) in st.facts and (a[0] == "obj" or ("nonnull", a) in st.facts):
                return False
        return None

    def add_identity_fact(self, st, a, b, same):
        facts = set(st.facts)
        if b == NONE or a == NONE:
            x = a if b == NONE else b
            facts.add(("isnone", x) if same else ("nonnull", x))
        else:
            facts.add(("same", a, b) if same else ("diff", a, b))
        st.facts = frozenset(facts)

    # ----------------------------------------------------------- statements
    def _block(self, stmts, st, frame):
        """yield (state, ctl) after executing ``stmts`` in order"""
        if not stmts:
            yield st, None
            return
        head, rest = stmts[0], stmts[1:]
        # `a = Q.parent` directly followed by the walk `while a is not None: if a is X: raise ...; a = a.parent`
        if rest and isinstance(rest[0], ast.While) and isinstance(head, ast.Assign) and len(head.targets) == 1 \
                and isinstance(head.targets[0], ast.Name) and isinstance(head.value, ast.Attribute) and head.value.attr == "parent":
            m = _match_ancestor_walk(rest[0])
            if m is not None and m[0] == head.targets[0].id:
                for s0, q, exc0 in self._ev(head.value.value, st, frame, head):
                    if exc0:
                        yield s0, ("raise", exc0)
                        continue
                    if not self._is_node_role(q):
                        raise AnalysisError("ancestor walk from a non-node value in %s" % frame.func.where)
                    for s1, ctl in self._stmt(head, s0, frame):
                        if ctl is not None:
                            yield s1, ctl
                            continue
                        for s2, ctl2 in self._ancestor_walk(rest[0], m, s1, frame, q):
                            if ctl2 is not None:
                                yield s2, ctl2
                            elif rest[1:]:
                                for r in self._block(rest[1:], s2, frame):
                                    yield r
                            else:
                                yield s2, None
                return
        for s1, ctl in self._stmt(head, st, frame):
            if ctl is not None:
                yield s1, ctl
            elif rest:
                for r in self._block(rest, s1, frame):
                    yield r
            else:
                yield s1, None

    def _stmt(self, s, st, frame):
        func = frame.func
        if isinstance(s, ast.Expr):
            if isinstance(s.value, ast.Constant):
                yield st, None
                return
            for s1, _, exc in self._ev(s.value, st, frame, s):
                yield s1, (("raise", exc) if exc else None)
            return
        if isinstance(s, ast.Pass):
            yield st, None
            return
        if isinstance(s, ast.Assign):
            for s1, role, exc in self._ev(s.value, st, frame, s):
                if exc:
                    yield s1, ("raise", exc)
                    continue
                for s2, exc2 in self._assign_targets(s.targets, role, s1, frame, s):
                    yield s2, (("raise", exc2) if exc2 else None)
            return
        if isinstance(s, ast.AugAssign):
            for s1, role, exc in self._ev(s.value, st, frame, s):
                if exc:
                    yield s1, ("raise", exc)
                    continue
                s1 = s1.copy()
                if isinstance(s.target, ast.Name):
                    tgt = s1.env.get(s.target.id, ("unknown", s.target.id))
                    if tgt[0] == "list_of" and isinstance(s.op, ast.Add):
                        self._list_write(s1, frame, s, tgt[1], ("extend", self.cur_list(s1, tgt[1]), role))
                    else:
                        s1.env[s.target.id] = ("unknown", norm(s))
                    yield s1, None
                else:
                    for s2, exc2 in self._assign_targets([s.target], ("unknown", norm(s)), s1, frame, s):
                        yield s2, (("raise", exc2) if exc2 else None)
            return
        if isinstance(s, ast.Delete):
            cur = [(st, None)]
            for t in s.targets:
                nxt = []
                for s1, exc in cur:
                    if exc:
                        nxt.append((s1, exc))
                        continue
                    nxt.extend(self._delete(t, s1, frame, s))
                cur = nxt
            for s1, exc in cur:
                yield s1, (("raise", exc) if exc else None)
            return
        if isinstance(s, ast.Return):
            if s.value is None:
                yield st, ("return", NONE)
                return
            for s1, role, exc in self._ev(s.value, st, frame, s):
                yield s1, (("raise", exc) if exc else ("return", role))
            return
        if isinstance(s, ast.Raise):
            if s.exc is None:
                exc = st.curexc or Exc("<unknown>", "raise", None)
                s1 = st.copy()
                s1.emit(Event("RERAISE", func, s, frame.id, exc=exc.cls))
                yield s1, ("raise", exc)
                return
            call = s.exc
            if isinstance(call, ast.Name):
                # `e = SomeError(...); raise e`: the class is that of the (unique) constructor bound to the name
                ctors = [n_.value for n_ in ast.walk(func.node) if isinstance(n_, ast.Assign) and len(n_.targets) == 1
                         and isinstance(n_.targets[0], ast.Name) and n_.targets[0].id == call.id and isinstance(n_.value, ast.Call)]
                names = {norm(c.func) for c in ctors}
                if len(names) == 1:
                    call = ast.copy_location(ast.Call(func=ctors[0].func, args=[], keywords=[]), call)
            args = call.args if isinstance(call, ast.Call) else []
            clsname = norm(call.func) if isinstance(call, ast.Call) else norm(call)
            # evaluate constructor arguments for events (message formatting is pure)
            for s1, _, exc in self._ev_list(args, st, frame, s):
                if exc:
                    yield s1, ("raise", exc)
                    continue
                s1 = s1.copy()
                ev = Event("RAISE", func, s, frame.id, exc=clsname.split(".")[-1])
                s1.emit(ev)
                yield s1, ("raise", Exc(clsname.split(".")[-1], "raise", ev))
            return
        if isinstance(s, ast.Assert):
            # internal assertions restate the invariant (W8 checks they are guarded
            # and pure); they are evaluated for their events only, never forked on
            for s1, _, exc in self._ev(s.test, st, frame, s):
                if exc:
                    yield s1, ("raise", exc)
                    continue
                s1 = s1.copy()
                s1.emit(Event("ASSERT", func, s, frame.id, text=norm(s.test)))
                yield s1, None
            return
        if isinstance(s, ast.If):
            for s1, val, exc in self._cond(s.test, st, frame, s):
                if exc:
                    yield s1, ("raise", exc)
                    continue
                for r in self._block(s.body if val else s.orelse, s1, frame):
                    yield r
            return
        if isinstance(s, ast.For):
            m = _match_inplace_removal(s)
            if m is not None:
                handled = False
                for r in self._inplace_removal(s, m, st, frame):
                    handled = True
                    yield r
                if handled:
                    return
            for r in self._for(s, st, frame):
                yield r
            return
        if isinstance(s, ast.While):
            for r in self._while(s, st, frame, 0):
                yield r
            return
        if isinstance(s, ast.Try):
            for r in self._try(s, st, frame):
                yield r
            return
        if isinstance(s, ast.Break):
            yield st, ("break",)
            return
        if isinstance(s, ast.Continue):
            yield st, ("continue",)
            return
        if isinstance(s, (ast.Import, ast.ImportFrom, ast.Global, ast.Nonlocal)):
            yield st, None
            return
        if isinstance(s, ast.With):
            s1 = st.copy()
            s1.emit(Event("UNKNOWNCALL", func, s, frame.id, text="with " + norm(s.items[0].context_expr)))
            for r in self._block(s.body, s1, frame):
                yield r
            return
        if isinstance(s, (ast.FunctionDef, ast.ClassDef)):
            yield st, None
            return
        raise AnalysisError("unsupported statement %s in %s" % (type(s).__name__, func.where))

    def _inplace_removal(self, s, m, st, frame):
        """`for i, c in enumerate(L): if c is X: del L[i]; break` on a children list: the list without X (by identity),
        edited in place - one event, no unrolling.  Yields nothing when L is not a children list (generic loop then)."""
        l_expr, x_expr = m
        res = list(self._ev_list([l_expr, x_expr], st, frame, s))
        if not all(exc is None and roles[0][0] == "list_of" for _, roles, exc in res):
            return
        for s1, roles, exc in res:
            s1 = s1.copy()
            owner = roles[0][1]
            s1.emit(Event("GUARD", frame.func, s, frame.id, name="identity-removal", a=roles[1], b=roles[0], outcome=True, text=norm(s.iter)))
            self._list_write(s1, frame, s, owner, ("without", self.cur_list(s1, owner), roles[1]))
            yield s1, None

    def _walk_start(self, st, var):
        """the node whose current parent the variable holds (`a = Q.parent` before the walk), or None"""
        r = st.env.get(var)
        if r is None:
            return None
        cands = [v for v in st.env.values() if isinstance(v, tuple) and v and self._is_node_role(v) and self.cur_parent(st, v) == r]
        cands = sorted(set(cands), key=repr)
        return cands[0] if len(cands) == 1 else None

    def _ancestor_walk(self, s, m, st, frame, q):
        """`while a is not None: if a is X: <raise>; a = a.parent` with a = Q.parent on entry: the identity scan of Q's
        proper ancestors for X"""
        var, x_expr, body = m[0], m[1], m[2]
        for s1, x, exc in self._ev(x_expr, st, frame, s):
            if exc:
                yield s1, ("raise", exc)
                continue
            if len(m) > 3:
                # the walk also ends at `stop`: complete only if stop is the current parent of the node that is looked for
                # (x is below its own parent, so it cannot be found at or above it - C01 at entry)
                stop_role = s1.env.get(m[3])
                cp = self.cur_parent(s1, x)
                same = stop_role is not None and (stop_role == cp or self.known_identity(s1, stop_role, cp) is True or (
                    stop_role == NONE and (self.known_identity(s1, cp, NONE) is True or ("hasnot", x, "parent") in s1.facts)))
                if not same:
                    raise AnalysisError("ancestor walk in %s ends early at `%s`, which is not the parent of the node it looks for" % (
                        frame.func.where, m[3]))
            start = s1.env.get(var)
            empty = start == NONE or (start is not None and self.known_identity(s1, start, NONE) is True)
            for v in ((False,) if empty else (True, False)):
                s2 = s1.copy()
                s2.emit(Event("GUARD", frame.func, s.test, frame.id, name="ancestor-scan", a=x, b=("properchain", q), outcome=v, text=norm(s.test)))
                self.n_forks += 1
                if v:
                    for r in self._block(body, s2, frame):
                        yield r
                else:
                    s2.env[var] = NONE
                    for r in self._block(s.orelse, s2, frame):
                        yield r

    def _for(self, s, st, frame):
        func = frame.func
        for s1, seqrole, exc in self._ev(s.iter, st, frame, s):
            if exc:
                yield s1, ("raise", exc)
                continue
            if seqrole[0] == "arg":
                # iterating a raw user iterable may raise
                s1 = s1.copy()
                ev = Event("USERITER", func, s, frame.id, text=norm(s.iter), a=seqrole)
                s1.emit(ev)
                yield s1, ("raise", Exc("<useriter>", "useriter", ev))
            s1 = s1.copy()
            s1.emit(Event("LOOP", func, s, frame.id, a=seqrole, text=norm(s.iter)))
            if seqrole == ("literal", ()):
                # an empty literal: the body never runs
                s1.emit(Event("LOOPEND", func, s, frame.id, a=seqrole, outcome=0))
                for r in self._block(s.orelse, s1, frame):
                    yield r
                continue
            minimum = 1 if seqrole[0] == "chain" else 0
            for r in self._for_iter(s, s1, frame, seqrole, 0, minimum):
                yield r

    def _for_iter(self, s, st, frame, seqrole, k, minimum):
        # exit the loop after k iterations
        if k >= minimum:
            s0 = st.copy()
            s0.emit(Event("LOOPEND", frame.func, s, frame.id, a=seqrole, outcome=k))
            for r in self._block(s.orelse, s0, frame):
                yield r
        if k >= self.unroll:
            self.cut_paths += 1
            return
        s1 = st.copy()
        elem = ("elem", seqrole, k)
        s1.emit(Event("ITER", frame.func, s, frame.id, a=seqrole, outcome=k))
        for s2, exc in self._assign_targets([s.target], elem, s1, frame, s):
            if exc:
                yield s2, ("raise", exc)
                continue
            for s3, ctl in self._block(s.body, s2, frame):
                if ctl is None or ctl[0] == "continue":
                    for r in self._for_iter(s, s3, frame, seqrole, k + 1, minimum):
                        yield r
                elif ctl[0] == "break":
                    yield s3, None
                else:
                    yield s3, ctl

    def _while(self, s, st, frame, k):
        for s1, val, exc in self._cond(s.test, st, frame, s):
            if exc:
                yield s1, ("raise", exc)
                continue
            if not val:
                for r in self._block(s.orelse, s1, frame):
                    yield r
                continue
            if k >= self.unroll:
                self.cut_paths += 1
                continue
            for s2, ctl in self._block(s.body, s1, frame):
                if ctl is None or ctl[0] == "continue":
                    for r in self._while(s, s2, frame, k + 1):
                        yield r
                elif ctl[0] == "break":
                    yield s2, None
                else:
                    yield s2, ctl

    def _try(self, s, st, frame):
        func = frame.func
        s0 = st.copy()
        s0.emit(Event("TRY", func, s, frame.id))
        for s1, ctl in self._block(s.body, s0, frame):
            if ctl is not None and ctl[0] == "raise":
                exc = ctl[1]
                handled = False
                for h in s.handlers:
                    names = None
                    if h.type is not None:
                        t = h.type
                        names = [norm(e).split(".")[-1] for e in (t.elts if isinstance(t, ast.Tuple) else [t])]
                    if names is None or any(self._is_subexc(exc.cls, n) for n in names):
                        handled = True
                        s2 = s1.copy()
                        s2.emit(Event("HANDLER", func, h, frame.id, exc=exc.cls, text=norm(h.type) if h.type else "bare"))
                        saved = s2.curexc
                        s2.curexc = exc
                        if h.name:
                            s2.env[h.name] = ("unknown", "exc")
                        for s3, ctl3 in self._block(h.body, s2, frame):
                            s3 = s3.copy()
                            s3.curexc = saved
                            s3.emit(Event("HANDLEREND", func, h, frame.id))
                            for r in self._finally(s, s3, ctl3, frame):
                                yield r
                        break
                if not handled:
                    for r in self._finally(s, s1, ctl, frame):
                        yield r
            elif ctl is None:
                s1 = s1.copy()
                s1.emit(Event("TRYEND", func, s, frame.id))
                for s2, ctl2 in self._block(s.orelse, s1, frame):
                    for r in self._finally(s, s2, ctl2, frame):
                        yield r
            else:
                for r in self._finally(s, s1, ctl, frame):
                    yield r

    def _finally(self, s, st, ctl, frame):
        if not s.finalbody:
            yield st, ctl
            return
        for s1, ctl1 in self._block(s.finalbody, st, frame):
            yield s1, (ctl1 if ctl1 is not None else ctl)

    # ---------------------------------------------------------- assignment
    def _assign_targets(self, targets, role, st, frame, stmt):
        """yield (state, exc)"""
        cur = [(st, None)]
        for t in targets:
            nxt = []
            for s1, exc in cur:
                if exc:
                    nxt.append((s1, exc))
                    continue
                nxt.extend(self._assign_one(t, role, s1, frame, stmt))
            cur = nxt
        return cur

    def _assign_one(self, t, role, st, frame, stmt):
        func = frame.func
        if isinstance(t, ast.Name):
            s1 = st.copy()
            s1.env[t.id] = role
            return [(s1, None)]
        if isinstance(t, (ast.Tuple, ast.List)):
            s1 = st.copy()
            for i, e in enumerate(t.elts):
                if isinstance(e, ast.Name):
                    s1.env[e.id] = ("unknown", "%s[%d]" % (label(role), i))
            return [(s1, None)]
        if isinstance(t, ast.Attribute):
            out = []
            for s1, recv, exc in self._ev(t.value, st, frame, stmt):
                if exc:
                    out.append((s1, exc))
                    continue
                mname = mangle(func.cls.name, t.attr) if func.cls else t.attr
                if mname == self.link_parent:
                    s1 = s1.copy()
                    s1.emit(Event("WRITE", func, stmt, frame.id, field="parent", recv=recv, value=role))
                    s1.store[(recv, "parent")] = role
                    out.append((s1, None))
                elif mname == self.link_children:
                    s1 = s1.copy()
                    if role == ("literal", ()) and ("hasnot", recv, "children") in s1.facts:
                        # lazy initialisation idiom: an absent list becomes an empty one —
                        # the same abstract forest, so neither a link write nor a new epoch
                        s1.emit(Event("LAZYINIT", func, stmt, frame.id, recv=recv, field="children"))
                        s1.facts = (s1.facts - {("hasnot", recv, "children")}) | {("has", recv, "children")}
                    else:
                        self._list_write(s1, frame, stmt, recv, role)
                    out.append((s1, None))
                elif self._is_memo_field(mname):
                    s1 = s1.copy()
                    s1.emit(Event("MEMODROP", func, stmt, frame.id, recv=recv, name=t.attr, value=role))
                    out.append((s1, None))
                else:
                    mem = self._member(t.attr) if self._is_node_role(recv) else None
                    if isinstance(mem, Prop) and mem.setter is not None:
                        for s2, _, exc2 in self._call_member(mem.setter, recv, [role], s1, frame, stmt):
                            out.append((s2, exc2))
                    elif isinstance(mem, Prop):
                        s1 = s1.copy()
                        ev = Event("RAISE", func, stmt, frame.id, exc="AttributeError", text="read-only property")
                        s1.emit(ev)
                        out.append((s1, Exc("AttributeError", "raise", ev)))
                    else:
                        s1 = s1.copy()
                        s1.emit(Event("SETATTR", func, stmt, frame.id, recv=recv, name=t.attr, value=role))
                        out.append((s1, None))
            return out
        if isinstance(t, ast.Subscript):
            out = []
            for s1, recv, exc in self._ev(t.value, st, frame, stmt):
                if exc:
                    out.append((s1, exc))
                    continue
                s1 = s1.copy()
                if recv[0] == "list_of":
                    self._list_write(s1, frame, stmt, recv[1], ("setitem", self.cur_list(s1, recv[1]), role))
                else:
                    s1.emit(Event("SETITEM", func, stmt, frame.id, recv=recv, value=role))
                out.append((s1, None))
            return out
        raise AnalysisError("unsupported assignment target in %s" % func.where)

    def _list_write(self, st, frame, stmt, owner, value):
        st.emit(Event("WRITE", frame.func, stmt, frame.id, field="children", recv=owner, value=value))
        st.store[(owner, "children")] = value
        st.epoch[owner] = st.epoch.get(owner, 0) + 1

    def _delete(self, t, st, frame, stmt):
        func = frame.func
        if isinstance(t, ast.Attribute):
            out = []
            for s1, recv, exc in self._ev(t.value, st, frame, stmt):
                if exc:
                    out.append((s1, exc))
                    continue
                mname = mangle(func.cls.name, t.attr) if func.cls else t.attr
                if mname in (self.link_parent, self.link_children):
                    s1 = s1.copy()
                    field = "parent" if mname == self.link_parent else "children"
                    s1.emit(Event("WRITE", func, stmt, frame.id, field=field, recv=recv, value=("deleted",)))
                    s1.store[(recv, field)] = ("deleted",)
                    out.append((s1, None))
                    continue
                mem = self._member(t.attr) if self._is_node_role(recv) else None
                if isinstance(mem, Prop) and mem.deleter is not None:
                    for s2, _, exc2 in self._call_member(mem.deleter, recv, [], s1, frame, stmt):
                        out.append((s2, exc2))
                else:
                    s1 = s1.copy()
                    s1.emit(Event("DELATTR", func, stmt, frame.id, recv=recv, name=t.attr))
                    out.append((s1, None))
            return out
        if isinstance(t, ast.Name):
            s1 = st.copy()
            s1.env.pop(t.id, None)
            return [(s1, None)]
        if isinstance(t, ast.Subscript):
            out = []
            for s1, recv, exc in self._ev(t.value, st, frame, stmt):
                if exc:
                    out.append((s1, exc))
                    continue
                s1 = s1.copy()
                if recv[0] == "list_of":
                    self._list_write(s1, frame, stmt, recv[1], ("delitem", self.cur_list(s1, recv[1])))
                out.append((s1, None))
            return out
        raise AnalysisError("unsupported delete target in %s" % func.where)

    def _is_node_role(self, r):
        return r[0] in ("obj", "arg", "parent_of", "elem") or r[0] == "ro" and r[1] in ("root",)

    # ---------------------------------------------------------- conditions
    def _cond(self, e, st, frame, stmt):
        """yield (state, bool, exc) for every feasible outcome of test e"""
        func = frame.func
        if isinstance(e, ast.BoolOp):
            is_and = isinstance(e.op, ast.And)

            def rec(i, s0):
                for s1, v, exc in self._cond(e.values[i], s0, frame, stmt):
                    if exc:
                        yield s1, None, exc
                    elif i == len(e.values) - 1:
                        yield s1, v, None
                    elif v != is_and:
                        yield s1, v, None  # short circuit
                    else:
                        for r in rec(i + 1, s1):
                            yield r
            for r in rec(0, st):
                yield r
            return
        if isinstance(e, ast.UnaryOp) and isinstance(e.op, ast.Not):
            for s1, v, exc in self._cond(e.operand, st, frame, stmt):
                yield s1, (None if exc else (not v)), exc
            return
        if isinstance(e, ast.Constant):
            yield st, bool(e.value), None
            return
        if isinstance(e, ast.Name) and e.id == "ASSERTIONS":
            # both settings run the same code apart from the (pure, W8) assertions;
            # explore the setting that executes them
            yield st, True, None
            return
        if isinstance(e, ast.Compare) and len(e.ops) == 1 and isinstance(e.ops[0], (ast.Is, ast.IsNot)):
            for s1, roles, exc in self._ev_list([e.left, e.comparators[0]], st, frame, stmt):
                if exc:
                    yield s1, None, exc
                    continue
                a, b = roles
                isop = isinstance(e.ops[0], ast.Is)
                known = self.known_identity(s1, a, b)
                outcomes = [known] if known is not None else [True, False]
                for same in outcomes:
                    s2 = s1.copy()
                    if known is None:
                        self.add_identity_fact(s2, a, b, same)
                        self.n_forks += 1
                    s2.emit(Event("GUARD", func, e, frame.id, name="is", a=a, b=b, outcome=same, text=norm(e)))
                    yield s2, (same if isop else not same), None
            return
        # hasattr(R, "<link field>") : optional-field idiom
        if isinstance(e, ast.Call) and isinstance(e.func, ast.Name) and e.func.id == "hasattr" and len(e.args) == 2 \
                and isinstance(e.args[1], ast.Constant) and e.args[1].value in (self.link_parent, self.link_children):
            field = "parent" if e.args[1].value == self.link_parent else "children"
            for s1, recv, exc in self._ev(e.args[0], st, frame, stmt):
                if exc:
                    yield s1, None, exc
                    continue
                ip = self.initial_parent(s1, recv)
                if (recv, field) in s1.store or ("has", recv, field) in s1.facts or \
                        (field == "parent" and (ip[0] == "obj" or ("nonnull", ip) in s1.facts)):
                    yield s1, True, None
                elif ("hasnot", recv, field) in s1.facts:
                    yield s1, False, None
                else:
                    for v in (True, False):
                        s2 = s1.copy()
                        s2.facts = s2.facts | {("has" if v else "hasnot", recv, field)}
                        if not v and field == "parent":
                            # an absent parent field is the same abstract state as None
                            self.add_identity_fact(s2, self.initial_parent(s2, recv), NONE, True)
                        self.n_forks += 1
                        s2.emit(Event("GUARD", func, e, frame.id, name="hasattr", a=recv, b=None, outcome=v, text=field))
                        yield s2, v, None
            return
        # any(<x> is <y> for <x> in <Q>.iter_path_reverse()/path/ancestors) : ancestor identity scan
        scan = self._ancestor_scan(e)
        if scan is not None:
            subj_e, chain_e = scan
            for s1, roles, exc in self._ev_list([subj_e, chain_e], st, frame, stmt):
                if exc:
                    yield s1, None, exc
                    continue
                for v in (True, False):
                    s2 = s1.copy()
                    s2.emit(Event("GUARD", func, e, frame.id, name="ancestor-scan", a=roles[0], b=roles[1], outcome=v,
                                  text=norm(e)))
                    self.n_forks += 1
                    yield s2, v, None
            return
        # isinstance(X, <classes>) on a raw argument: the true outcome validates it as a node when a mixin is among the classes
        if isinstance(e, ast.Call) and isinstance(e.func, ast.Name) and e.func.id == "isinstance" and len(e.args) == 2 \
                and any(isinstance(c, ast.Name) and c.id in T.MIXINS for c in ast.walk(e.args[1])):
            for s1, role, exc in self._ev(e.args[0], st, frame, stmt):
                if exc:
                    yield s1, None, exc
                    continue
                for v in (True, False):
                    s2 = s1.copy()
                    if v and role[0] == "arg":
                        s2.facts = s2.facts | {("isnode", role)}
                    s2.emit(Event("GUARD", func, e, frame.id, name="opaque", a=("unknown", norm(e)[:50]), b=None, outcome=v, text=norm(e)))
                    self.n_forks += 1
                    yield s2, v, None
            return
        # generic: evaluate for events, then both outcomes
        for s1, role, exc in self._ev(e, st, frame, stmt):
            if exc:
                yield s1, None, exc
                continue
            if role == NONE:
                yield s1, False, None
                continue
            if role[0] == "const" and role[1] in ("True", "False", "0", "1", "''", "()", "[]"):
                yield s1, role[1] in ("True", "1"), None
                continue
            for v in (True, False):
                s2 = s1.copy()
                s2.emit(Event("GUARD", func, e, frame.id, name="opaque", a=role, b=None, outcome=v, text=norm(e)))
                self.n_forks += 1
                yield s2, v, None

    def _ancestor_scan(self, e):
        if not (isinstance(e, ast.Call) and isinstance(e.func, ast.Name) and e.func.id == "any" and len(e.args) == 1):
            return None
        g = e.args[0]
        if not isinstance(g, (ast.GeneratorExp, ast.ListComp)) or len(g.generators) != 1 or g.generators[0].ifs:
            return None
        gen = g.generators[0]
        if not isinstance(gen.target, ast.Name):
            return None
        elt = g.elt
        if not (isinstance(elt, ast.Compare) and len(elt.ops) == 1 and isinstance(elt.ops[0], ast.Is)):
            return None
        sides = [elt.left, elt.comparators[0]]
        var = [x for x in sides if isinstance(x, ast.Name) and x.id == gen.target.id]
        oth = [x for x in sides if not (isinstance(x, ast.Name) and x.id == gen.target.id)]
        if len(var) != 1 or len(oth) != 1:
            return None
        return oth[0], gen.iter

    # ---------------------------------------------------------- expressions
    def _ev_list(self, exprs, st, frame, stmt):
        """yield (state, [roles], exc)"""
        if not exprs:
            yield st, [], None
            return

        def rec(i, s0, acc):
            for s1, role, exc in self._ev(exprs[i], s0, frame, stmt):
                if exc:
                    yield s1, None, exc
                elif i == len(exprs) - 1:
                    yield s1, acc + [role], None
                else:
                    for r in rec(i + 1, s1, acc + [role]):
                        yield r
        for r in rec(0, st, []):
            yield r

    def _ev(self, e, st, frame, stmt):
        """yield (state, role, exc)"""
        func = frame.func
        if isinstance(e, ast.Constant):
            yield st, (NONE if e.value is None else ("const", repr(e.value))), None
            return
        if isinstance(e, ast.Name):
            if e.id in st.env:
                yield st, st.env[e.id], None
            else:
                yield st, ("global", e.id), None
            return
        if isinstance(e, ast.Attribute):
            for s1, recv, exc in self._ev(e.value, st, frame, stmt):
                if exc:
                    yield s1, None, exc
                    continue
                for r in self._attr_load(e, recv, s1, frame, stmt):
                    yield r
            return
        if isinstance(e, ast.Call):
            for r in self._call(e, st, frame, stmt):
                yield r
            return
        if isinstance(e, ast.ListComp) or isinstance(e, ast.GeneratorExp):
            for r in self._comp(e, st, frame, stmt):
                yield r
            return
        if isinstance(e, (ast.Tuple, ast.List)):
            for s1, roles, exc in self._ev_list(list(e.elts), st, frame, stmt):
                if exc:
                    yield s1, None, exc
                else:
                    yield s1, ("literal", tuple(roles)), None
            return
        if isinstance(e, ast.BinOp):
            for s1, roles, exc in self._ev_list([e.left, e.right], st, frame, stmt):
                if exc:
                    yield s1, None, exc
                    continue
                l, r = roles
                if isinstance(e.op, ast.Add) and (l[0] in ("list_of", "children0", "without", "append", "snapshot")):
                    base = self.cur_list(s1, l[1]) if l[0] == "list_of" else l
                    if r[0] == "literal" and len(r[1]) == 1:
                        yield s1, ("append", base, r[1][0]), None
                    else:
                        yield s1, ("extend", base, r), None
                elif isinstance(e.op, ast.Add) and r[0] in ("list_of", "children0", "without", "append", "snapshot"):
                    yield s1, ("prepend", r, l), None
                elif isinstance(e.op, ast.Mod) and l[0] == "const" and l[1][:1] in "'\"":
                    yield s1, ("const", "str:" + norm(e)[:40]), None  # "fmt" % args is a str: never None
                else:
                    yield s1, ("unknown", norm(e)), None
            return
        if isinstance(e, (ast.Compare, ast.BoolOp, ast.UnaryOp)):
            # value position: evaluate operands for events
            subs = [c for c in ast.iter_child_nodes(e) if isinstance(c, ast.expr)]
            for s1, _, exc in self._ev_list(subs, st, frame, stmt):
                yield s1, (None if exc else ("unknown", norm(e))), exc
            return
        if isinstance(e, ast.IfExp):
            # the raw children list read through the optional-field idiom, `X.__children if hasattr(X, "<field>") else <empty>`:
            # an absent list is the same abstract value as an empty one (as in the lazy initialisation), so both arms are
            # the children list of X
            t = e.test
            if isinstance(t, ast.Call) and isinstance(t.func, ast.Name) and t.func.id == "hasattr" and len(t.args) == 2 \
                    and isinstance(t.args[1], ast.Constant) and t.args[1].value == self.link_children \
                    and isinstance(e.body, ast.Attribute) and norm(e.body.value) == norm(t.args[0]) \
                    and (mangle(frame.func.cls.name, e.body.attr) if frame.func.cls else e.body.attr) == self.link_children \
                    and ((isinstance(e.orelse, (ast.Tuple, ast.List)) and not e.orelse.elts) or (isinstance(e.orelse, ast.Constant) and e.orelse.value is None)):
                for s1, recv, exc in self._ev(t.args[0], st, frame, stmt):
                    if exc:
                        yield s1, None, exc
                        continue
                    s1 = s1.copy()
                    s1.emit(Event("LISTREAD", func, stmt, frame.id, recv=recv))
                    yield s1, ("list_of", recv), None
                return
            for s1, v, exc in self._cond(e.test, st, frame, stmt):
                if exc:
                    yield s1, None, exc
                    continue
                for r in self._ev(e.body if v else e.orelse, s1, frame, stmt):
                    yield r
            return
        if isinstance(e, ast.Subscript):
            for s1, recv, exc in self._ev(e.value, st, frame, stmt):
                if exc:
                    yield s1, None, exc
                else:
                    yield s1, ("item", recv, norm(e.slice)), None
            return
        if isinstance(e, (ast.Lambda, ast.JoinedStr, ast.Dict, ast.Set, ast.SetComp, ast.DictComp)):
            subs = []
            if not isinstance(e, ast.Lambda):
                subs = [c for c in ast.walk(e) if isinstance(c, ast.Call)]
            s1 = st
            if subs:
                s1 = st.copy()
                s1.emit(Event("UNKNOWNCALL", func, stmt, frame.id, text=norm(e)))
            yield s1, ("unknown", norm(e)[:40]), None
            return
        if isinstance(e, ast.Starred):
            for r in self._ev(e.value, st, frame, stmt):
                yield r
            return
        if isinstance(e, (ast.Yield, ast.YieldFrom, ast.Await)):
            raise AnalysisError("generator/async entry point not supported: %s" % func.where)
        yield st, ("unknown", norm(e)[:40]), None

    def _comp(self, e, st, frame, stmt):
        func = frame.func
        gens = e.generators
        for s1, seqrole, exc in self._ev(gens[0].iter, st, frame, stmt):
            if exc:
                yield s1, None, exc
                continue
            # the removal idiom: [c for c in L if c is not X]
            if len(gens) == 1 and isinstance(gens[0].target, ast.Name) and isinstance(e.elt, ast.Name) \
                    and e.elt.id == gens[0].target.id and len(gens[0].ifs) == 1:
                c = gens[0].ifs[0]
                if isinstance(c, ast.UnaryOp) and isinstance(c.op, ast.Not) and isinstance(c.operand, ast.Compare) \
                        and len(c.operand.ops) == 1 and isinstance(c.operand.ops[0], ast.Is):
                    c = ast.Compare(left=c.operand.left, ops=[ast.IsNot()], comparators=c.operand.comparators)
                if isinstance(c, ast.Compare) and len(c.ops) == 1 and isinstance(c.ops[0], ast.IsNot):
                    sides = [c.left, c.comparators[0]]
                    oth = [x for x in sides if not (isinstance(x, ast.Name) and x.id == gens[0].target.id)]
                    if len(oth) == 1 and len([x for x in sides if isinstance(x, ast.Name) and x.id == gens[0].target.id]) == 1:
                        for s2, xrole, exc2 in self._ev(oth[0], s1, frame, stmt):
                            if exc2:
                                yield s2, None, exc2
                                continue
                            base = self.cur_list(s2, seqrole[1]) if seqrole[0] == "list_of" else seqrole
                            yield s2, ("without", base, xrole), None
                        continue
            # generic comprehension: calls inside are evaluated once with the
            # loop variable bound to a generic element
            s2 = s1.copy()
            for g in gens:
                if isinstance(g.target, ast.Name):
                    s2.env[g.target.id] = ("elem", seqrole, "*")
            inner_calls = [c for part in ([e.elt] + [i for g in gens for i in g.ifs] + [g.iter for g in gens[1:]])
                           for c in ast.walk(part) if isinstance(c, ast.Call)]
            if not inner_calls:
                yield s1, ("comp", seqrole, norm(e)[:60]), None
                continue
            cur = [(s2, None)]
            for c in inner_calls:
                nxt = []
                for s3, exc3 in cur:
                    if exc3:
                        nxt.append((s3, exc3))
                        continue
                    for s4, _, exc4 in self._ev(c, s3, frame, stmt):
                        nxt.append((s4, exc4))
                cur = nxt
            for s3, exc3 in cur:
                s3 = s3.copy()
                s3.env = dict(s1.env)
                yield s3, (None if exc3 else ("comp", seqrole, norm(e)[:60])), exc3

    def _attr_load(self, e, recv, st, frame, stmt):
        func = frame.func
        attr = e.attr
        mname = mangle(func.cls.name, attr) if func.cls else attr
        if mname == self.link_parent:
            yield st, self.cur_parent(st, recv), None
            return
        if mname == self.link_children:
            s1 = st.copy()
            s1.emit(Event("LISTREAD", func, stmt, frame.id, recv=recv))
            yield s1, ("list_of", recv), None
            return
        if recv[0] == "global":
            yield st, ("global", "%s.%s" % (recv[1], attr)), None
            return
        if recv[0] == "arg" and ("isnode", recv) not in st.facts and self.known_identity(st, recv, NONE) is not True \
                and not getattr(self, "_in_nonnode", False):
            # a raw argument nobody has validated yet may be anything: on a non-node the first attribute access fails
            # (an invalid argument in the sense of C03); on a node it succeeds and the argument is known to be one from here on
            s2 = st.copy()
            ev = Event("NONNODE", func, stmt, frame.id, text=norm(e), a=recv)
            s2.emit(ev)
            yield s2, None, Exc("AttributeError", "nonnode", ev)
            st = st.copy()
            st.facts = st.facts | {("isnode", recv)}
        if self._is_node_role(recv):
            mem = self._member(attr)
            if isinstance(mem, Prop) and mem.getter is not None:
                if attr in ("parent", "children", "__children_or_empty") or attr not in T.READONLY_MEMBERS:
                    for r in self._call_member(mem.getter, recv, [], st, frame, stmt):
                        yield r
                else:
                    yield st, ("ro", attr, recv), None
                return
            if isinstance(mem, Func):
                yield st, ("bound", mem.name, recv), None
                return
            if attr in T.HOOKS:
                yield st, ("hookref", attr, recv), None
                return
            yield st, ("attr", attr, recv), None
            return
        if recv[0] in ("list_of",) or attr in T.MUTATING_METHODS | T.PURE_METHODS:
            yield st, ("method", attr, recv), None
            return
        yield st, ("attr", attr, recv), None

    # ---------------------------------------------------------------- calls
    def _call(self, e, st, frame, stmt):
        func = frame.func
        f = e.func
        args = list(e.args) + [k.value for k in e.keywords]
        # builtins with role semantics
        if isinstance(f, ast.Name) and f.id not in st.env:
            name = f.id
            if name == "tuple" or name == "list":
                if not e.args:
                    yield st, ("literal", ()), None
                    return
                for s1, role, exc in self._ev(e.args[0], st, frame, stmt):
                    if exc:
                        yield s1, None, exc
                        continue
                    if role[0] == "arg":
                        s2 = s1.copy()
                        ev = Event("USERITER", func, stmt, frame.id, text=norm(e), a=role)
                        s2.emit(ev)
                        yield s2, None, Exc("<useriter>", "useriter", ev)
                        s3 = s1.copy()
                        s3.emit(Event("USERITER-OK", func, stmt, frame.id, text=norm(e), a=role))
                        yield s3, ("tuple", role), None
                    elif role[0] == "list_of":
                        yield s1, ("snapshot", role[1], s1.epoch.get(role[1], 0)), None
                    elif role[0] in ("tuple", "snapshot") or role == ("literal", ()):
                        yield s1, role, None  # (a copy of the empty literal is the empty literal)
                    else:
                        yield s1, ("copy", role), None
                return
            if name in ("reversed", "sorted", "set", "frozenset", "iter", "enumerate", "zip", "filter", "map"):
                for s1, roles, exc in self._ev_list(args, st, frame, stmt):
                    yield s1, (None if exc else (name, tuple(roles))), exc
                return
            if name in T.PURE_BUILTINS or name in T.EXC_BUILTINS:
                for s1, roles, exc in self._ev_list(args, st, frame, stmt):
                    yield s1, (None if exc else ("unknown", norm(e)[:50])), exc
                return
            # module-level function / class of the package or unknown global
            for s1, roles, exc in self._ev_list(args, st, frame, stmt):
                if exc:
                    yield s1, None, exc
                    continue
                r = self.p.resolve_name(func.module, name)
                if r is not None and r[0] == "class" and self._is_exception_class(r[1].name):
                    yield s1, ("excobj", r[1].name), None
                    continue
                if r is not None and r[0] == "func" and len(roles) == 2 and not e.keywords and roles[0][0] == "list_of" \
                        and _is_identity_removal_helper(r[1].node):
                    # a helper that deletes ONE occurrence of its second argument (found by identity) from the list in place and
                    # reports whether it did: on a children list this is the removal step of a detach
                    owner = roles[0][1]
                    s2 = s1.copy()
                    s2.emit(Event("GUARD", func, stmt, frame.id, name="identity-removal", a=roles[1], b=roles[0], outcome=True, text=norm(e)))
                    self._list_write(s2, frame, stmt, owner, ("without", self.cur_list(s2, owner), roles[1]))
                    yield s2, ("const", "True"), None
                    if self.cur_parent(s1, roles[1]) != owner and self.initial_parent(s1, roles[1]) != owner:
                        s3 = s1.copy()
                        s3.emit(Event("GUARD", func, stmt, frame.id, name="identity-removal", a=roles[1], b=roles[0], outcome=False, text=norm(e)))
                        yield s3, ("const", "False"), None
                    continue
                s2 = s1.copy()
                ev = Event("UNKNOWNCALL", func, stmt, frame.id, text=norm(e.func))
                s2.emit(ev)
                yield s2, ("unknown", norm(e)[:50]), None
                s3 = s1.copy()
                s3.emit(ev)
                yield s3, None, Exc("<unknown>", "unknown", ev)
            return
        if isinstance(f, ast.Attribute):
            # Cls.__m(...) : static/explicit member call
            if isinstance(f.value, ast.Name) and f.value.id == self.cls.name and f.value.id not in st.env:
                mem = self._member(f.attr)
                if isinstance(mem, Func):
                    for s1, roles, exc in self._ev_list(args, st, frame, stmt):
                        if exc:
                            yield s1, None, exc
                            continue
                        recv = None
                        a = roles
                        if mem.kind == "method":
                            recv, a = (roles[0], roles[1:]) if roles else (("unknown", "?"), [])
                        for r in self._call_member(mem, recv, a, s1, frame, stmt):
                            yield r
                    return
            for s1, fr, exc in self._ev(f, st, frame, stmt):
                if exc:
                    yield s1, None, exc
                    continue
                for s2, roles, exc2 in self._ev_list(args, s1, frame, stmt):
                    if exc2:
                        yield s2, None, exc2
                        continue
                    for r in self._call_role(e, fr, roles, s2, frame, stmt):
                        yield r
            return
        # calling a local variable (e.g. a callback)
        for s1, roles, exc in self._ev_list(args, st, frame, stmt):
            if exc:
                yield s1, None, exc
                continue
            s2 = s1.copy()
            ev = Event("UNKNOWNCALL", func, stmt, frame.id, text=norm(e.func))
            s2.emit(ev)
            yield s2, ("unknown", norm(e)[:50]), None
            s3 = s1.copy()
            s3.emit(ev)
            yield s3, None, Exc("<unknown>", "unknown", ev)

    def _is_exception_class(self, name):
        return self._is_subexc(name, "BaseException")

    def _call_role(self, e, fr, roles, st, frame, stmt):
        func = frame.func
        k = fr[0]
        if k == "hookref":
            ev = Event("HOOK", func, stmt, frame.id, name=fr[1], recv=fr[2], args=tuple(roles))
            s1 = st.copy()
            s1.emit(ev)
            yield s1, NONE, None
            s2 = st.copy()
            s2.emit(ev)
            s2.emit(Event("HOOKRAISE", func, stmt, frame.id, name=fr[1], recv=fr[2]))
            yield s2, None, Exc("<hook>", "hook", ev)
            return
        if k == "bound":
            mem = self.cls.members.get(fr[1])
            if isinstance(mem, Func):
                if fr[1] in T.HOOKS:
                    for r in self._call_role(e, ("hookref", fr[1], fr[2]), roles, st, frame, stmt):
                        yield r
                    return
                if _is_generator_func(mem) or mem.srcname in T.READONLY_MEMBERS:
                    role = ("chain", fr[2]) if mem.srcname == "iter_path_reverse" else ("ro", mem.srcname, fr[2])
                    yield st, role, None
                    return
                for r in self._call_member(mem, fr[2], roles, st, frame, stmt):
                    yield r
                return
        if k == "method":
            name, recv = fr[1], fr[2]
            if recv[0] == "list_of" and name in T.MUTATING_METHODS:
                s1 = st.copy()
                owner = recv[1]
                cur = self.cur_list(s1, owner)
                if name == "append" and len(roles) == 1:
                    val = ("append", cur, roles[0])
                else:
                    val = (name, cur) + tuple(roles)
                self._list_write(s1, frame, stmt, owner, val)
                yield s1, NONE, None
                return
            if name in T.LIST_ORDER_METHODS and recv[0] in ("snapshot", "tuple", "children0"):
                yield st, ("unknown", norm(e)[:50]), None
                return
            yield st, ("unknown", norm(e)[:50]), None
            return
        # anything else: opaque callee, may raise, effects unknown
        s1 = st.copy()
        ev = Event("UNKNOWNCALL", func, stmt, frame.id, text=norm(e.func))
        s1.emit(ev)
        yield s1, ("unknown", norm(e)[:50]), None
        s2 = st.copy()
        s2.emit(ev)
        yield s2, None, Exc("<unknown>", "unknown", ev)

    def _irrelevant(self, mem, _seen=None):
        """(irrelevant, has_opaque): the member neither writes a link, calls a hook,
        raises, nor assigns parent/children — inlining it adds nothing to the event
        trace; has_opaque: it contains a callee that may raise."""
        if mem in self._irr_cache:
            return self._irr_cache[mem]
        _seen = _seen or set()
        if mem in _seen:
            return (True, False)
        _seen.add(mem)
        irr, opaque = True, False
        cname = mem.cls.name if mem.cls else ""
        for n in ast.walk(mem.node):
            if isinstance(n, ast.Raise):
                irr = False
            elif isinstance(n, ast.Attribute):
                m = mangle(cname, n.attr)
                if isinstance(n.ctx, (ast.Store, ast.Del)) and (m in (self.link_parent, self.link_children) or n.attr in ("parent", "children")):
                    irr = False
                if n.attr in T.HOOKS:
                    irr = False
            elif isinstance(n, ast.Call):
                f = n.func
                if isinstance(f, ast.Attribute):
                    sub = self._member(f.attr)
                    if isinstance(sub, Func) and (_is_generator_func(sub) or sub.srcname in T.READONLY_MEMBERS):
                        pass  # read-only navigation (purity is C04's rule)
                    elif isinstance(sub, Func):
                        a, b = self._irrelevant(sub, _seen)
                        irr, opaque = irr and a, opaque or b
                    elif isinstance(sub, Prop):
                        pass
                    elif f.attr in T.MUTATING_METHODS | T.PURE_METHODS:
                        pass
                    else:
                        opaque = True
                elif isinstance(f, ast.Name):
                    if f.id not in T.PURE_BUILTINS and f.id not in T.EXC_BUILTINS:
                        opaque = True
                else:
                    opaque = True
        if _is_generator_func(mem):
            irr = False
        self._irr_cache[mem] = (irr, opaque)
        return self._irr_cache[mem]

    def _memo_getter(self, mem):
        from .memo import memo_getter_value
        if not hasattr(self, "_memo_cache"):
            self._memo_cache = {}
        if mem not in self._memo_cache:
            r = memo_getter_value(self.p, mem)
            self._memo_cache[mem] = r[1] if r is not None else None
        return self._memo_cache[mem]

    def _is_memo_field(self, mname):
        from .memo import memo_fields
        return mname in memo_fields(self.p)

    def _call_member(self, mem, recv, args, st, frame, stmt):
        """Inline a member function of the class. yield (state, role, exc)."""
        func = frame.func
        depth = len(frame.stack())
        if isinstance(stmt, ast.Expr) and mem.kind == "method" and mem.srcname not in T.HOOKS:
            irr, opaque = self._irrelevant(mem)
            if irr:
                s1 = st.copy()
                s1.emit(Event("CALLSUMMARY", func, stmt, frame.id, name=mem.qual, recv=recv, text="no link write, hook or raise inside"))
                if opaque:
                    ev = Event("UNKNOWNCALL", func, stmt, frame.id, text=mem.qual + " (opaque callee inside)")
                    s1.emit(ev)
                    yield s1, NONE, None
                    s2 = st.copy()
                    s2.emit(ev)
                    yield s2, None, Exc("<unknown>", "unknown", ev)
                else:
                    yield s1, NONE, None
                return
        if mem in frame.stack() and mem.kind in ("setter", "deleter"):
            ev = Event("REENTER", func, stmt, frame.id, name=mem.qual, recv=recv, args=tuple(args))
            s1 = st.copy()
            s1.emit(ev)
            self._apply_reenter(s1, mem, recv, args)
            yield s1, NONE, None
            s2 = st.copy()
            s2.emit(ev)
            yield s2, None, Exc("<reenter>", "reenter", ev)
            return
        if depth > 7:
            raise AnalysisError("inlining depth exceeded at %s" % mem.where)
        callee = self._frame(mem, frame, recv)
        body = mem.body
        mg = self._memo_getter(mem)
        if mg is not None:
            # a getter that caches its value in a memo field: equivalent to computing the value (coherence: C04 N8)
            body = [ast.copy_location(ast.Return(value=mg), mem.node)]
            ast.fix_missing_locations(body[0])
        s0 = st.copy()
        saved_env = s0.env
        env = {}
        params = mem.posparams
        vals = ([recv] if mem.kind in ("method", "getter", "setter", "deleter") else []) + list(args)
        for i, p in enumerate(params):
            if i < len(vals):
                env[p] = vals[i]
            else:
                d_ = getattr(mem, "defaults", {}).get(p)
                if isinstance(d_, ast.Constant) and d_.value is None:
                    env[p] = NONE  # the parameter's default, known exactly
                elif isinstance(d_, ast.Constant):
                    env[p] = ("const", repr(d_.value))
                else:
                    env[p] = ("default", p)
        s0.env = env
        s0.emit(Event("ENTER", mem, stmt, callee.id, name=mem.qual, recv=recv, args=tuple(args), depth=depth))
        for s1, ctl in self._block(body, s0, callee):
            s1 = s1.copy()
            s1.env = dict(saved_env)
            if ctl is None or ctl[0] == "return":
                s1.emit(Event("EXIT", mem, stmt, callee.id, name=mem.qual, depth=depth))
                yield s1, (ctl[1] if ctl else NONE), None
            elif ctl[0] == "raise":
                s1.emit(Event("EXITRAISE", mem, stmt, callee.id, name=mem.qual, exc=ctl[1].cls, depth=depth))
                yield s1, None, ctl[1]
            else:
                raise AnalysisError("break/continue escaped %s" % mem.where)

    def _apply_reenter(self, st, mem, recv, args):
        """Abstract effect of a successful re-entered `recv.children = v`:
        recv's own children list and the parent fields of those children are
        what `v` says; nothing else is touched."""
        if mem.kind == "setter" and mem.srcname == "children" and args:
            v = args[0]
            if v[0] == "snapshot" and v[1] == recv and v[2] == 0:
                st.store.pop((recv, "children"), None)
                st.store[(recv, "children:restored")] = v
                for key in list(st.store):
                    x, field = key
                    if field == "parent" and x[0] == "elem" and x[1] == v:
                        del st.store[key]


def _match_inplace_removal(s):
    """For statement `for i, c in enumerate(L): if c is X: del L[i]; break` -> (L expr, X expr)"""
    if s.orelse or not (isinstance(s.iter, ast.Call) and isinstance(s.iter.func, ast.Name) and s.iter.func.id == "enumerate" and len(s.iter.args) == 1):
        return None
    t = s.target
    if not (isinstance(t, ast.Tuple) and len(t.elts) == 2 and all(isinstance(x, ast.Name) for x in t.elts)):
        return None
    i, c = t.elts[0].id, t.elts[1].id
    if len(s.body) != 1 or not isinstance(s.body[0], ast.If) or s.body[0].orelse:
        return None
    iff = s.body[0]
    tst = iff.test
    if not (isinstance(tst, ast.Compare) and len(tst.ops) == 1 and isinstance(tst.ops[0], ast.Is)):
        return None
    sides = [tst.left, tst.comparators[0]]
    var = [x for x in sides if isinstance(x, ast.Name) and x.id == c]
    oth = [x for x in sides if not (isinstance(x, ast.Name) and x.id == c)]
    if len(var) != 1 or len(oth) != 1:
        return None
    b = iff.body
    if len(b) != 2 or not isinstance(b[1], ast.Break) or not (isinstance(b[0], ast.Delete) and len(b[0].targets) == 1):
        return None
    d = b[0].targets[0]
    if not (isinstance(d, ast.Subscript) and isinstance(d.slice, ast.Name) and d.slice.id == i and norm(d.value) == norm(s.iter.args[0])):
        return None
    return s.iter.args[0], oth[0]


def _is_identity_removal_helper(fnode):
    """f(lst, x): every mutation of lst is `lst.pop()` under `lst[-1] is x` or `del lst[i]` inside `for i, item in
    enumerate(lst): if item is x:`, each directly followed by `return True`; every other return gives False/None; nothing
    else has an effect"""
    a = fnode.args
    if a.vararg or a.kwarg or a.kwonlyargs or a.defaults or len(a.args) != 2:
        return False
    lst, x = a.args[0].arg, a.args[1].arg
    body = [st for st in fnode.body if not (isinstance(st, ast.Expr) and isinstance(st.value, ast.Constant))]
    n_mut = [0]

    def is_x_test(t, elem_txts):
        conj = t.values if isinstance(t, ast.BoolOp) and isinstance(t.op, ast.And) else [t]
        for c in conj:
            if isinstance(c, ast.Compare) and len(c.ops) == 1 and isinstance(c.ops[0], ast.Is):
                sides = {norm(c.left), norm(c.comparators[0])}
                if x in sides and sides & set(elem_txts):
                    return True
        return False

    def ret_true(st):
        return isinstance(st, ast.Return) and isinstance(st.value, ast.Constant) and st.value.value is True

    def ok_block(stmts, elem_txts, idx):
        for st in stmts:
            if isinstance(st, ast.Return):
                if not (st.value is None or (isinstance(st.value, ast.Constant) and st.value.value in (False, None))):
                    return False
            elif isinstance(st, ast.If) and not st.orelse:
                if is_x_test(st.test, elem_txts):
                    b = st.body
                    if len(b) != 2 or not ret_true(b[1]):
                        return False
                    m = b[0]
                    pop = isinstance(m, ast.Expr) and isinstance(m.value, ast.Call) and norm(m.value.func) == "%s.pop" % lst \
                        and not m.value.args and "%s[-1]" % lst in elem_txts
                    dele = isinstance(m, ast.Delete) and len(m.targets) == 1 and idx is not None and norm(m.targets[0]) == "%s[%s]" % (lst, idx)
                    if not (pop or dele):
                        return False
                    n_mut[0] += 1
                else:
                    return False
            elif isinstance(st, ast.For) and not st.orelse and isinstance(st.iter, ast.Call) and norm(st.iter) == "enumerate(%s)" % lst \
                    and isinstance(st.target, ast.Tuple) and len(st.target.elts) == 2 and all(isinstance(v, ast.Name) for v in st.target.elts):
                if not ok_block(st.body, [st.target.elts[1].id], st.target.elts[0].id):
                    return False
            else:
                return False
        return True
    return ok_block(body, ["%s[-1]" % lst], None) and n_mut[0] >= 1


def _match_ancestor_walk(s):
    """While statement `while a is not None: if a is X: <body ending in raise/return>; a = a.parent` -> (a, X expr, body)"""
    t = s.test
    stop = None
    if isinstance(t, ast.BoolOp) and isinstance(t.op, ast.And) and len(t.values) == 2:
        # `a is not None and a is not S`: the walk may also end at S (accepted only when S is the scanned-for node's own parent)
        t, second = t.values
        if isinstance(second, ast.Compare) and len(second.ops) == 1 and isinstance(second.ops[0], ast.IsNot) and isinstance(second.left, ast.Name) \
                and isinstance(second.comparators[0], ast.Name):
            stop = (second.left.id, second.comparators[0].id)
        else:
            return None
    if not (isinstance(t, ast.Compare) and len(t.ops) == 1 and isinstance(t.ops[0], ast.IsNot) and isinstance(t.left, ast.Name)
            and isinstance(t.comparators[0], ast.Constant) and t.comparators[0].value is None):
        return None
    a = t.left.id
    if stop is not None and stop[0] != a:
        return None
    if len(s.body) != 2 or not isinstance(s.body[0], ast.If) or s.body[0].orelse:
        return None
    iff, step = s.body
    if not (isinstance(step, ast.Assign) and len(step.targets) == 1 and isinstance(step.targets[0], ast.Name) and step.targets[0].id == a
            and isinstance(step.value, ast.Attribute) and step.value.attr == "parent" and isinstance(step.value.value, ast.Name)
            and step.value.value.id == a):
        return None
    tst = iff.test
    if not (isinstance(tst, ast.Compare) and len(tst.ops) == 1 and isinstance(tst.ops[0], ast.Is)):
        return None
    sides = [tst.left, tst.comparators[0]]
    var = [x for x in sides if isinstance(x, ast.Name) and x.id == a]
    oth = [x for x in sides if not (isinstance(x, ast.Name) and x.id == a)]
    if len(var) != 1 or len(oth) != 1 or not iff.body or not isinstance(iff.body[-1], (ast.Raise, ast.Return)):
        return None
    if stop is not None:
        return a, oth[0], iff.body, stop[1]
    return a, oth[0], iff.body


def _is_generator_func(f):
    for n in ast.walk(f.node):
        if isinstance(n, (ast.Yield, ast.YieldFrom)):
            return True
    return False


# ------------------------------------------------------------------ helpers
def entry_points(program, clsname):
    cls = program.cls(clsname)
    return {
        "parent.setter": program.func(clsname, "parent", "setter"),
        "children.setter": program.func(clsname, "children", "setter"),
        "children.deleter": program.func(clsname, "children", "deleter"),
    }


_cache = {}


def traces_for(program, clsname, unroll):
    key = (id(program), clsname, unroll)
    if key not in _cache:
        cls = program.cls(clsname)
        out = {}
        stats = {}
        for name, func in entry_points(program, clsname).items():
            it = Interp(program, cls, unroll=unroll)
            res = it.run_entry(func)
            out[name] = (func, res, it)
            stats[name] = {"traces": len(res), "forks": it.n_forks, "paths_cut_at_unroll_bound": it.cut_paths,
                           "frames": len(it.frames)}
        _cache[key] = (out, stats)
    return _cache[key]


def format_trace(trace, limit=60):
    out = []
    for ev in trace:
        if ev.kind in ("ENTER", "EXIT", "EXITRAISE", "HOOK", "WRITE", "RAISE", "RERAISE", "USERITER", "REENTER",
                       "HANDLER", "UNKNOWNCALL", "HOOKRAISE", "GUARD"):
            out.append(ev.brief())
    if len(out) > limit:
        out = out[: limit // 2] + ["..."] + out[-limit // 2:]
    return out
