"""Normalisation (analysis only): undo "single exit with flags" style.

Rules phrased over guards ("this raise is dominated by that test") see a different shape when a refactoring
replaces early exits by a result/flag variable that is tested later.  Every transformation here is a
semantics-preserving rewrite of structured code, applied before the program model is indexed:

 N1  forward substitution of single-assignment boolean temporaries whose operands are never rebound
       t = a is not b ... if t:            ->   if a is not b:
 N2  tail duplication into the branches of an `if` that assigns a flag the rest of the block tests/returns,
     followed by structured constant propagation of the flag, folding decided tests
       m = None; if c: m = X; if m is not None: raise E(m)   ->   if c: m = X; raise E(m)
 N3  return sinking: `v = E; return v` -> `return E`
 N4  loop flags: `f = True; while f and c: ...; f = False (tail position)` -> `while c: ...; break`
 N5  explicit iterator protocol: `it = iter(X); while True: try: v = next(it) except StopIteration: break else: B`
       -> `for v in X: B`
 N6  generator helpers consumed by a for loop / tuple(): `for x in self.__gen(a): B` -> helper body with
     `yield E` replaced by `x = E; B` (helper: new private name, single top-level loop, no try/return)

Statements keep their original line numbers."""

import ast
import copy

from .inline import PINNED_PRIVATE, _contains

PURE_CALLS = {"isinstance", "_abort_at_level", "hasattr", "callable"}
MAX_DUP = 10  # statements


# ---------------------------------------------------------------------------
# helpers
# ---------------------------------------------------------------------------
def _blocks(st):
    for field in ("body", "orelse", "finalbody"):
        blk = getattr(st, field, None)
        if isinstance(blk, list) and blk and isinstance(blk[0], ast.stmt):
            yield field, blk
    if isinstance(st, ast.Try):
        for h in st.handlers:
            yield "handler", h.body


def _walk_scope(node):
    """walk without entering nested function/class scopes (lambdas and comprehensions are entered)"""
    stack = list(ast.iter_child_nodes(node)) if not isinstance(node, list) else list(node)
    while stack:
        n = stack.pop()
        yield n
        if isinstance(n, (ast.FunctionDef, ast.AsyncFunctionDef, ast.ClassDef)):
            continue
        stack.extend(ast.iter_child_nodes(n))


def _count_stmts(stmts):
    n = 0
    for s in stmts:
        n += 1
        for _, blk in _blocks(s):
            n += _count_stmts(blk)
    return n


def _names_loaded(node):
    return {n.id for n in ast.walk(node) if isinstance(n, ast.Name) and isinstance(n.ctx, ast.Load)}


class _Scope:
    """binding facts about the locals of one function"""

    def __init__(self, fn):
        self.fn = fn
        a = fn.args
        self.params = {x.arg for x in a.posonlyargs + a.args + a.kwonlyargs}
        if a.vararg:
            self.params.add(a.vararg.arg)
        if a.kwarg:
            self.params.add(a.kwarg.arg)
        self.plain = {}  # name -> [Assign nodes with a single Name target]
        self.other_stores = {}  # name -> count of other binding forms
        self.nested_use = set()
        self.declared = set()
        self.attr_ok = None
        for n in _walk_scope(fn.body):
            if isinstance(n, ast.Assign) and len(n.targets) == 1 and isinstance(n.targets[0], ast.Name):
                self.plain.setdefault(n.targets[0].id, []).append(n)
            if isinstance(n, (ast.Global, ast.Nonlocal)):
                self.declared.update(n.names)
            if isinstance(n, (ast.FunctionDef, ast.AsyncFunctionDef, ast.ClassDef)):
                self.other_stores[n.name] = self.other_stores.get(n.name, 0) + 1
                for m in ast.walk(n):
                    if isinstance(m, ast.Name):
                        self.nested_use.add(m.id)
            if isinstance(n, ast.Lambda):
                for m in ast.walk(n):
                    if isinstance(m, ast.Name):
                        self.nested_use.add(m.id)
            if isinstance(n, ast.ExceptHandler) and n.name:
                self.other_stores[n.name] = self.other_stores.get(n.name, 0) + 1
        plain_targets = {id(a_.targets[0]) for lst in self.plain.values() for a_ in lst}
        for n in _walk_scope(fn.body):
            if isinstance(n, ast.Name) and isinstance(n.ctx, (ast.Store, ast.Del)) and id(n) not in plain_targets:
                self.other_stores[n.id] = self.other_stores.get(n.id, 0) + 1

    def n_stores(self, name):
        return len(self.plain.get(name, ())) + self.other_stores.get(name, 0)

    def stable(self, name):
        """never rebound after its single binding (parameter without stores, or one store)"""
        if name in self.declared:
            return False
        if name in self.params:
            return self.n_stores(name) == 0
        return self.n_stores(name) <= 1

    def only_plain(self, name):
        return name not in self.params and name not in self.declared and self.other_stores.get(name, 0) == 0 \
            and name in self.plain and name not in self.nested_use


# ---------------------------------------------------------------------------
# N1 boolean temporaries
# ---------------------------------------------------------------------------
def _order(fn):
    """pre-order (textual) index of every node of the function"""
    idx = {}

    def rec(n):
        idx[id(n)] = len(idx)
        for c in ast.iter_child_nodes(n):
            rec(c)
    rec(fn)
    return idx


def _cond_expr(e, scope, before=None):
    """a pure condition over names that are not rebound after the point `before` (stable names) and constants"""
    if isinstance(e, ast.Constant):
        return True
    if isinstance(e, ast.Name):
        if scope.stable(e.id) or e.id[:1].isupper():
            return True
        if before is not None and e.id not in scope.declared and e.id not in scope.nested_use:
            order, pos = before
            stores = [n for n in _walk_scope(scope.fn.body) if isinstance(n, ast.Name) and n.id == e.id
                      and isinstance(n.ctx, (ast.Store, ast.Del))]
            return all(order[id(n)] < pos for n in stores)
        return False
    if isinstance(e, ast.Attribute) and isinstance(e.value, ast.Name) and scope.attr_ok is not None:
        # `self.option`: an attribute the function never assigns and that is not a (tree-navigation) property
        return scope.stable(e.value.id) and scope.attr_ok(e.attr)
    if isinstance(e, ast.Tuple):
        return all(_cond_expr(x, scope, before) for x in e.elts)
    if isinstance(e, ast.UnaryOp) and isinstance(e.op, ast.Not):
        return _cond_expr(e.operand, scope, before)
    if isinstance(e, ast.BoolOp):
        return all(_cond_expr(x, scope, before) for x in e.values)
    if isinstance(e, ast.Compare):
        return all(_cond_expr(x, scope, before) for x in [e.left] + list(e.comparators))
    if isinstance(e, ast.Call) and not e.keywords:
        f = e.func
        name = f.id if isinstance(f, ast.Name) else f.attr if isinstance(f, ast.Attribute) else None
        if name in PURE_CALLS and (isinstance(f, ast.Name) or isinstance(f.value, ast.Name)):
            return all(_cond_expr(x, scope, before) for x in e.args)
    return False


def _is_boolish(e):
    if isinstance(e, ast.Compare):
        return True
    if isinstance(e, ast.Call) and isinstance(e.func, ast.Name) and e.func.id in ("isinstance", "hasattr", "callable"):
        return True
    if isinstance(e, ast.UnaryOp) and isinstance(e.op, ast.Not):
        return True
    if isinstance(e, ast.BoolOp):
        return all(_is_boolish(v) for v in e.values)
    return False


def subst_bool_temps(fn, property_names=None):
    scope = _Scope(fn)
    if property_names is not None:
        stored = {n.attr for n in ast.walk(fn) if isinstance(n, ast.Attribute) and isinstance(n.ctx, (ast.Store, ast.Del))}
        has_calls_on_self = False
        scope.attr_ok = lambda a: a not in property_names and a not in stored and not a.startswith("__")
    cands = {}
    order = _order(fn)
    for name, assigns in scope.plain.items():
        if len(assigns) != 1 or not scope.only_plain(name) and name in scope.nested_use:
            continue
        if name in scope.params or name in scope.declared or scope.other_stores.get(name, 0):
            continue
        a = assigns[0]
        if _is_boolish(a.value) and _cond_expr(a.value, scope, (order, order[id(a)])) and name not in _names_loaded(a.value):
            cands[name] = a
    if not cands:
        return 0

    class R(ast.NodeTransformer):
        def visit_Name(self, node):
            if node.id in cands and isinstance(node.ctx, ast.Load):
                return ast.copy_location(copy.deepcopy(cands[node.id].value), node)
            return node

        def visit_Assign(self, node):
            if any(node is c for c in cands.values()):
                return None
            self.generic_visit(node)
            return node
    # substitute to a fixpoint (a temporary may mention another one)
    for _ in range(3):
        fn.body = [s for s in (R().visit(st) for st in fn.body) if s is not None] or [ast.Pass()]
    _fill_empty(fn)
    return len(cands)


def _fill_empty(fn):
    for n in ast.walk(fn):
        blk = getattr(n, "body", None)
        if isinstance(blk, list) and not blk and not isinstance(n, ast.Module):
            n.body = [ast.Pass()]


# ---------------------------------------------------------------------------
# N2/N3 tail duplication, constant propagation, return sinking
# ---------------------------------------------------------------------------
NONNONE = "nonnone"


def _definitely_not_none(e, env=None):
    if isinstance(e, ast.Constant):
        return e.value is not None
    if isinstance(e, ast.BinOp) and isinstance(e.op, ast.Mod) and isinstance(e.left, ast.Name) and env is not None \
            and isinstance(env.get(e.left.id), ast.Constant) and isinstance(env[e.left.id].value, str):
        return True
    if isinstance(e, (ast.Tuple, ast.List, ast.Dict, ast.Set, ast.ListComp, ast.SetComp, ast.DictComp, ast.GeneratorExp,
                      ast.JoinedStr, ast.Compare, ast.Lambda)):
        return True
    if isinstance(e, ast.UnaryOp) and isinstance(e.op, ast.Not):
        return True
    if isinstance(e, ast.BinOp) and isinstance(e.op, ast.Mod) and isinstance(e.left, ast.Constant) and isinstance(e.left.value, str):
        return True
    if isinstance(e, ast.Call) and isinstance(e.func, ast.Name) and e.func.id in ("tuple", "list", "dict", "set", "str", "len", "id",
                                                                                  "bool", "int", "repr", "iter", "reversed", "sorted"):
        return True
    if isinstance(e, ast.Call) and isinstance(e.func, ast.Attribute) and e.func.attr in ("format", "join") and \
            isinstance(e.func.value, ast.Constant):
        return True
    return False


def _exits(stmts):
    if not stmts:
        return False
    last = stmts[-1]
    if isinstance(last, (ast.Return, ast.Raise, ast.Break, ast.Continue)):
        return True
    if isinstance(last, ast.If):
        return bool(last.orelse) and _exits(last.body) and _exits(last.orelse)
    return False


def _assigned_flags(stmts, flags):
    """flags plainly assigned in these statements (not inside loops: a loop may run zero times)"""
    out = set()
    for n in _walk_scope(stmts):
        if isinstance(n, ast.Assign) and len(n.targets) == 1 and isinstance(n.targets[0], ast.Name) and n.targets[0].id in flags:
            out.add(n.targets[0].id)
    return out


class _Threader:
    def __init__(self, fn):
        self.fn = fn
        self.scope = _Scope(fn)
        self.flags = set()
        self.results = set()
        for name, assigns in self.scope.plain.items():
            if not self.scope.only_plain(name):
                continue
            if any(isinstance(a.value, ast.Constant) for a in assigns):
                self.flags.add(name)
            self.results.add(name)
        self.changed = 0

    # -- tail duplication
    def _decidable_names(self, e):
        """names whose constant value would decide (part of) the test"""
        if isinstance(e, ast.Name):
            return {e.id}
        if isinstance(e, ast.UnaryOp) and isinstance(e.op, ast.Not):
            return self._decidable_names(e.operand)
        if isinstance(e, ast.BoolOp):
            out = set()
            for v in e.values:
                out |= self._decidable_names(v)
            return out
        if isinstance(e, ast.Compare) and len(e.ops) == 1 and isinstance(e.ops[0], (ast.Is, ast.IsNot)):
            l, r = e.left, e.comparators[0]
            for x, y in ((l, r), (r, l)):
                if isinstance(y, ast.Constant) and y.value is None and isinstance(x, ast.Name):
                    return {x.id}
        return set()

    def _uses_flag(self, st, names):
        if isinstance(st, ast.If):
            return bool(self._decidable_names(st.test) & names)
        if isinstance(st, ast.Return) and st.value is not None:
            return isinstance(st.value, ast.Name) and st.value.id in names
        return False

    def dup(self, stmts, in_loop_tail=False):
        out = []
        i = 0
        stmts = list(stmts)
        while i < len(stmts):
            st = stmts[i]
            rest = stmts[i + 1:]
            if isinstance(st, ast.If) and rest:
                names = _assigned_flags(st.body, self.flags | self.results) | _assigned_flags(st.orelse, self.flags | self.results)
                first = rest[0]
                trigger = False
                if names and self._uses_flag(first, names & self.flags) and _count_stmts(rest) <= MAX_DUP:
                    trigger = True
                elif names and len(rest) == 1 and isinstance(first, ast.Return) and isinstance(first.value, ast.Name) \
                        and first.value.id in names:
                    trigger = True
                if trigger and not _contains(rest, (ast.FunctionDef, ast.ClassDef, ast.AsyncFunctionDef), stop_at_defs=False):
                    new = ast.If(test=st.test,
                                 body=(list(st.body) + copy.deepcopy(rest)) if not _exits(st.body) else list(st.body),
                                 orelse=(list(st.orelse) + rest) if not _exits(st.orelse) else list(st.orelse))
                    ast.copy_location(new, st)
                    new._threaded = True
                    new.body = self.dup(new.body)
                    new.orelse = self.dup(new.orelse)
                    out.append(new)
                    self.changed += 1
                    return out
            for field, blk in list(_blocks(st)):
                if field == "handler":
                    continue
                setattr(st, field, self.dup(blk))
            if isinstance(st, ast.Try):
                for h in st.handlers:
                    h.body = self.dup(h.body)
            out.append(st)
            i += 1
        return out

    # -- constant propagation
    def ev(self, e, env):
        """-> True / False / simplified expr"""
        if isinstance(e, ast.Name) and isinstance(env.get(e.id), ast.Constant):
            return bool(env[e.id].value)
        if isinstance(e, ast.Name) and isinstance(env.get(e.id), tuple):
            return True  # a function object
        if isinstance(e, ast.UnaryOp) and isinstance(e.op, ast.Not):
            v = self.ev(e.operand, env)
            if isinstance(v, bool):
                return not v
            if v is not e.operand:
                return ast.copy_location(ast.UnaryOp(op=ast.Not(), operand=v), e)
            return e
        if isinstance(e, ast.Compare) and len(e.ops) == 1 and isinstance(e.ops[0], (ast.Is, ast.IsNot)):
            l, r = e.left, e.comparators[0]
            for x, y in ((l, r), (r, l)):
                if isinstance(y, ast.Constant) and y.value is None and isinstance(x, ast.Name) and x.id in env:
                    known = env[x.id]
                    isnone = isinstance(known, ast.Constant) and known.value is None
                    return isnone if isinstance(e.ops[0], ast.Is) else not isnone
            return e
        if isinstance(e, ast.BoolOp):
            is_and = isinstance(e.op, ast.And)
            vals = []
            for v in e.values:
                r = self.ev(v, env)
                if isinstance(r, bool):
                    if r == is_and:
                        continue  # neutral element
                    # absorbing element: the value of the whole expression (as a test) is decided if nothing
                    # before it is undecided
                    if not vals:
                        return r
                    vals.append(ast.copy_location(ast.Constant(value=r), v))
                    break
                vals.append(r)
            if not vals:
                return is_and
            if len(vals) == 1:
                return vals[0]
            if len(vals) == len(e.values) and all(a is b for a, b in zip(vals, e.values)):
                return e
            return ast.copy_location(ast.BoolOp(op=e.op, values=vals), e)
        return e

    def prop(self, stmts, env):
        """-> (statements, env after or None when control never falls through)"""
        out = []
        for idx, st in enumerate(stmts):
            if isinstance(st, ast.Assign) and len(st.targets) == 1 and isinstance(st.targets[0], ast.Name) \
                    and st.targets[0].id in self.flags:
                name = st.targets[0].id
                self._subst_alias_calls(st, env)
                v = st.value
                if isinstance(v, ast.Name) and v.id in env and isinstance(env[v.id], ast.Constant):
                    v = env[v.id]
                if isinstance(v, ast.UnaryOp) and isinstance(v.op, ast.Not):
                    r = self.ev(v, env)
                    if isinstance(r, bool):
                        v = ast.copy_location(ast.Constant(value=r), v)
                if isinstance(v, ast.Constant):
                    env[name] = v
                elif getattr(v, "_known_callable", False):
                    env[name] = ("alias", v)
                elif _definitely_not_none(v, env):
                    env[name] = NONNONE
                else:
                    env.pop(name, None)
                out.append(st)
                continue
            if isinstance(st, ast.If):
                r = self.ev(st.test, env)
                if isinstance(r, bool):
                    self.changed += 1
                    taken, e2 = self.prop(list(st.body if r else st.orelse), env)
                    out.extend(taken)
                    if e2 is None:
                        return out, None
                    env = e2
                    continue
                if r is not st.test:
                    st.test = r
                    self.changed += 1
                b, e1 = self.prop(list(st.body), dict(env))
                o, e2 = self.prop(list(st.orelse), dict(env))
                st.body = b or [ast.copy_location(ast.Pass(), st)]
                st.orelse = o
                out.append(st)
                if e1 is None and e2 is None:
                    return out, None
                if e1 is None:
                    env = e2
                elif e2 is None:
                    env = e1
                else:
                    env = {k: v for k, v in e1.items() if k in e2 and self._same(v, e2[k])}
                continue
            if isinstance(st, ast.Return):
                self._subst_alias_calls(st, env)
                if isinstance(st.value, ast.Name) and isinstance(env.get(st.value.id), ast.Constant):
                    st.value = ast.copy_location(copy.deepcopy(env[st.value.id]), st.value)
                    self.changed += 1
                out.append(st)
                return out, None
            if isinstance(st, (ast.Raise, ast.Break, ast.Continue)):
                out.append(st)
                return out, None
            if isinstance(st, (ast.For, ast.While, ast.AsyncFor)):
                killed = _assigned_flags([st], self.flags)
                env = {k: v for k, v in env.items() if k not in killed}
                if isinstance(st, ast.While):
                    r = self.ev(st.test, env)
                    if not isinstance(r, bool) and r is not st.test:
                        st.test = r
                st.body, _ = self.prop(list(st.body), dict(env))
                st.body = st.body or [ast.Pass()]
                st.orelse, _ = self.prop(list(st.orelse), dict(env))
                out.append(st)
                continue
            if isinstance(st, ast.Try):
                killed = _assigned_flags([st], self.flags)
                env0 = dict(env)
                env = {k: v for k, v in env.items() if k not in killed}
                st.body, _ = self.prop(list(st.body), dict(env0))
                st.body = st.body or [ast.Pass()]
                for h in st.handlers:
                    h.body, _ = self.prop(list(h.body), dict(env))
                    h.body = h.body or [ast.Pass()]
                st.orelse, _ = self.prop(list(st.orelse), dict(env))
                st.finalbody, _ = self.prop(list(st.finalbody), dict(env))
                out.append(st)
                continue
            if isinstance(st, (ast.With, ast.AsyncWith)):
                st.body, e1 = self.prop(list(st.body), env)
                st.body = st.body or [ast.Pass()]
                out.append(st)
                if e1 is None:
                    # a context manager may swallow exceptions, but never a return/break: conservative
                    env = {}
                else:
                    env = e1
                continue
            if isinstance(st, (ast.Assign, ast.Expr, ast.AugAssign, ast.AnnAssign)):
                self._subst_alias_calls(st, env)
                # a plain assignment to a flag handled above; other stores to tracked names cannot occur (only_plain)
            out.append(st)
        return out, env

    def _subst_alias_calls(self, st, env):
        al = {k: v[1] for k, v in env.items() if isinstance(v, tuple)}
        if not al:
            return
        for n in ast.walk(st):
            if isinstance(n, ast.Call) and isinstance(n.func, ast.Name) and n.func.id in al:
                n.func = ast.copy_location(copy.deepcopy(al[n.func.id]), n.func)
                self.changed += 1

    @staticmethod
    def _same(a, b):
        if isinstance(a, tuple) or isinstance(b, tuple):
            return isinstance(a, tuple) and isinstance(b, tuple) and ast.dump(a[1]) == ast.dump(b[1])
        if a is NONNONE or b is NONNONE:
            return a is b
        return isinstance(a, ast.Constant) and isinstance(b, ast.Constant) and type(a.value) is type(b.value) and a.value == b.value

    # -- return sinking
    def sink(self, stmts):
        out = []
        for st in stmts:
            for field, blk in list(_blocks(st)):
                if field != "handler":
                    setattr(st, field, self.sink(blk))
            if isinstance(st, ast.Try):
                for h in st.handlers:
                    h.body = self.sink(h.body)
            if isinstance(st, ast.Return) and isinstance(st.value, ast.Name) and out:
                prev = out[-1]
                if isinstance(prev, ast.Assign) and len(prev.targets) == 1 and isinstance(prev.targets[0], ast.Name) \
                        and prev.targets[0].id == st.value.id and st.value.id in self.results \
                        and len(self.scope.plain.get(st.value.id, ())) >= 2:
                    out.pop()
                    new = ast.Return(value=prev.value)
                    ast.copy_location(new, prev)
                    out.append(new)
                    self.changed += 1
                    continue
            out.append(st)
        return out

    def flatten(self, stmts):
        """`if c: <exits> else: B` -> `if c: <exits>; B` for the ifs this pass restructured"""
        out = []
        for st in stmts:
            for field, blk in list(_blocks(st)):
                if field != "handler":
                    setattr(st, field, self.flatten(blk))
            if isinstance(st, ast.Try):
                for h in st.handlers:
                    h.body = self.flatten(h.body)
            if isinstance(st, ast.If) and getattr(st, "_threaded", False) and st.orelse and _exits(st.body):
                rest, st.orelse = st.orelse, []
                out.append(st)
                out.extend(rest)
                continue
            out.append(st)
        return out

    def drop_dead_flags(self):
        """remove `f = <const>` for flags that are no longer read anywhere"""
        loads = {n.id for n in ast.walk(self.fn) if isinstance(n, ast.Name) and isinstance(n.ctx, ast.Load)}
        dead = {f for f in self.flags if f not in loads}
        if not dead:
            return

        def rec(stmts):
            new = []
            for st in stmts:
                if isinstance(st, ast.Assign) and len(st.targets) == 1 and isinstance(st.targets[0], ast.Name) \
                        and st.targets[0].id in dead and (isinstance(st.value, (ast.Constant, ast.Name))
                                                          or getattr(st.value, "_known_callable", False)):
                    self.changed += 1
                    continue
                for field, blk in list(_blocks(st)):
                    if field != "handler":
                        r = rec(blk)
                        if not r and field == "body":
                            r = [ast.copy_location(ast.Pass(), st)]
                        setattr(st, field, r)
                if isinstance(st, ast.Try):
                    for h in st.handlers:
                        h.body = rec(h.body) or [ast.copy_location(ast.Pass(), st)]
                new.append(st)
            return new
        self.fn.body = rec(self.fn.body) or [ast.Pass()]

    # -- loop flags (N4)
    def loop_flags(self, stmts, env_consts):
        """`while <flag conjunct> and rest` with the flag only cleared in tail position of the body -> break"""
        for idx, st in enumerate(stmts):
            for field, blk in list(_blocks(st)):
                self.loop_flags(blk, env_consts)
            if not isinstance(st, ast.While) or st.orelse:
                continue
            conj = list(st.test.values) if isinstance(st.test, ast.BoolOp) and isinstance(st.test.op, ast.And) else [st.test]
            for c in conj:
                name, cont_value = None, None
                if isinstance(c, ast.Name):
                    name, cont_value = c.id, True
                elif isinstance(c, ast.UnaryOp) and isinstance(c.op, ast.Not) and isinstance(c.operand, ast.Name):
                    name, cont_value = c.operand.id, False
                if name is None or name not in self.flags:
                    continue
                assigns = self.scope.plain[name]
                inside = [a for a in assigns if any(a is n for n in ast.walk(st))]
                outside = [a for a in assigns if not any(a is n for n in ast.walk(st))]
                # initialised (just) before the loop with the continuing value
                if len(outside) != 1 or not any(outside[0] is s for s in stmts[:idx]):
                    continue
                o = outside[0]
                if not (isinstance(o.value, ast.Constant) and o.value.value is cont_value):
                    continue
                # no statement between the initialisation and the loop is compound (flag certainly still set)
                between = stmts[[i for i, s in enumerate(stmts) if s is o][0] + 1:idx]
                if any(list(_blocks(s)) for s in between):
                    continue
                if not inside or not all(isinstance(a.value, ast.Constant) and a.value.value is (not cont_value) for a in inside):
                    continue
                # the other conjuncts must be pure truth tests of names
                others = [x for x in conj if x is not c]
                if not all(isinstance(x, ast.Name) or (isinstance(x, ast.UnaryOp) and isinstance(x.operand, ast.Name)) for x in others):
                    continue
                # reads of the flag: only the loop test
                reads = [n for n in ast.walk(self.fn) if isinstance(n, ast.Name) and n.id == name and isinstance(n.ctx, ast.Load)]
                if len(reads) != 1:
                    continue
                tails = self._tail_stmts(st.body)
                if tails is None or not all(any(a is t for t in tails) for a in inside):
                    continue
                # rewrite
                for a in inside:
                    self._replace_stmt(st, a, ast.copy_location(ast.Break(), a))
                if others:
                    st.test = others[0] if len(others) == 1 else ast.copy_location(ast.BoolOp(op=ast.And(), values=others), st.test)
                else:
                    st.test = ast.copy_location(ast.Constant(value=True), st.test)
                stmts[:] = [s for s in stmts if s is not o]
                self.changed += 1
                return self.loop_flags(stmts, env_consts)

    def _tail_stmts(self, body):
        """statements after which control reaches the end of ``body`` without executing anything else"""
        if not body:
            return []
        last = body[-1]
        out = [last]
        if isinstance(last, ast.If):
            out += self._tail_stmts(last.body) + self._tail_stmts(last.orelse)
        elif isinstance(last, ast.Try) and not last.finalbody:
            for h in last.handlers:
                out += self._tail_stmts(h.body)
            if last.orelse:
                out += self._tail_stmts(last.orelse)
            else:
                out += self._tail_stmts(last.body)
        elif isinstance(last, (ast.With,)):
            out += self._tail_stmts(last.body)
        return out

    def _replace_stmt(self, root, old, new):
        for n in ast.walk(root):
            for field, blk in _blocks(n):
                for i, s in enumerate(blk):
                    if s is old:
                        blk[i] = new
                        return True
        return False

    def run(self):
        fn = self.fn
        self.loop_flags(fn.body, {})
        if self.changed:
            self.scope = _Scope(fn)
        if self.flags or self.results:
            fn.body = self.dup(fn.body)
            fn.body, _ = self.prop(fn.body, {})
            fn.body = fn.body or [ast.Pass()]
            fn.body = self.sink(fn.body)
            fn.body = self.flatten(fn.body)
            self.drop_dead_flags()
        _fill_empty(fn)
        return self.changed


# ---------------------------------------------------------------------------
# N5 iterator protocol -> for
# ---------------------------------------------------------------------------
def resugar_for(fn):
    n_done = 0

    def rec(stmts):
        nonlocal n_done
        i = 0
        while i < len(stmts):
            st = stmts[i]
            for _, blk in _blocks(st):
                rec(blk)
            if isinstance(st, ast.While) and isinstance(st.test, ast.Constant) and st.test.value is True and not st.orelse \
                    and len(st.body) == 1 and isinstance(st.body[0], ast.Try) and i > 0:
                t = st.body[0]
                prev = stmts[i - 1]
                ok = (len(t.body) == 1 and isinstance(t.body[0], ast.Assign) and len(t.body[0].targets) == 1
                      and isinstance(t.body[0].value, ast.Call) and isinstance(t.body[0].value.func, ast.Name)
                      and t.body[0].value.func.id == "next" and len(t.body[0].value.args) == 1
                      and isinstance(t.body[0].value.args[0], ast.Name)
                      and len(t.handlers) == 1 and isinstance(t.handlers[0].type, ast.Name) and t.handlers[0].type.id == "StopIteration"
                      and len(t.handlers[0].body) == 1 and isinstance(t.handlers[0].body[0], ast.Break)
                      and not t.finalbody and t.orelse)
                if ok:
                    it = t.body[0].value.args[0].id
                    ok = (isinstance(prev, ast.Assign) and len(prev.targets) == 1 and isinstance(prev.targets[0], ast.Name)
                          and prev.targets[0].id == it and isinstance(prev.value, ast.Call) and isinstance(prev.value.func, ast.Name)
                          and prev.value.func.id == "iter" and len(prev.value.args) == 1)
                    uses = [n for n in ast.walk(fn) if isinstance(n, ast.Name) and n.id == it]
                    if ok and len(uses) == 2:
                        new = ast.For(target=t.body[0].targets[0], iter=prev.value.args[0], body=t.orelse, orelse=[], type_comment=None)
                        ast.copy_location(new, st)
                        stmts[i - 1:i + 1] = [new]
                        n_done += 1
                        continue
            i += 1
    rec(fn.body)
    return n_done


# ---------------------------------------------------------------------------
# N6 generator helpers
# ---------------------------------------------------------------------------
def collect_gen_helpers(trees):
    """generator helpers of all modules, keyed by name (names defined more than once are dropped)"""
    allh = {}
    dup = set()
    for tree in trees:
        for key, h in _gen_helpers(tree).items():
            if key[1] in allh:
                dup.add(key[1])
            allh[key[1]] = (key[0], tree) + h
    for d in dup:
        allh.pop(d, None)
    return allh


def _gen_helpers(tree):
    """new private generator functions: {(cls or None, name): (FunctionDef, kind, body)}"""
    out = {}

    def consider(fn, cls):
        name = fn.name
        if name in PINNED_PRIVATE:
            return
        if cls is not None and not (name.startswith("_") and not name.endswith("__")):
            return
        if cls is None and not name.startswith("_"):
            return
        a = fn.args
        if a.vararg or a.kwarg or a.kwonlyargs or not all(isinstance(d, ast.Constant) for d in a.defaults):
            return
        kind = "method"
        for d in fn.decorator_list:
            if isinstance(d, ast.Name) and d.id == "staticmethod":
                kind = "static"
            else:
                return
        if cls is None:
            kind = "function"
        body = [s for s in fn.body if not (isinstance(s, ast.Expr) and isinstance(s.value, ast.Constant))]
        if not _contains(body, (ast.Yield,)) or _contains(body, (ast.YieldFrom, ast.Return, ast.Try, ast.With, ast.Await, ast.Global,
                                                               ast.Nonlocal, ast.Break, ast.Continue)):
            return
        # yields only as expression statements
        for n in _walk_scope(body):
            if isinstance(n, ast.Yield):
                pass
        ys = [n for n in _walk_scope(body) if isinstance(n, ast.Yield)]
        stmts_y = [n for n in _walk_scope(body) if isinstance(n, ast.Expr) and isinstance(n.value, ast.Yield)]
        if len(ys) != len(stmts_y) or any(y.value is None for y in ys):
            return
        for n in ast.walk(fn):
            if isinstance(n, ast.Attribute) and n.attr == name or isinstance(n, ast.Name) and n.id == name:
                return  # recursive
        out[(cls, name)] = (fn, kind, body)
    for st in tree.body:
        if isinstance(st, ast.FunctionDef):
            consider(st, None)
        elif isinstance(st, ast.ClassDef):
            for m in st.body:
                if isinstance(m, ast.FunctionDef):
                    consider(m, st.name)
    return out


class _Rename(ast.NodeTransformer):
    def __init__(self, mapping, rename):
        self.mapping, self.rename = mapping, rename

    def visit_Name(self, node):
        if node.id in self.mapping and isinstance(node.ctx, ast.Load):
            return copy.deepcopy(self.mapping[node.id])
        if node.id in self.rename:
            return ast.copy_location(ast.Name(id=self.rename[node.id], ctx=node.ctx), node)
        return node


_gen_counter = [0]


def _pad_defaults(fn, params, args):
    """positional arguments completed with the helper's (constant) defaults"""
    d = fn.args.defaults
    missing = len(params) - len(args)
    if 0 < missing <= len(d):
        return list(args) + [copy.deepcopy(x) for x in d[len(d) - missing:]]
    return args


def inline_generators(tree, allh, used):
    """allh: collect_gen_helpers(...) of the whole program; used: set of helper names inlined (updated)"""
    if not allh:
        return 0
    n_done = 0
    own = {id(h[2]) for h in allh.values() if h[1] is tree}

    def resolve(call, clsname, selfname):
        f = call.func
        if call.keywords or any(isinstance(a, ast.Starred) for a in call.args):
            return None
        if isinstance(f, ast.Name) and f.id in allh and allh[f.id][0] is None and allh[f.id][1] is tree:
            return allh[f.id][2:], list(call.args), None
        if isinstance(f, ast.Attribute) and isinstance(f.value, ast.Name) and f.attr in allh:
            cls, _tree, fn, kind, body = allh[f.attr]
            if cls is None:
                return None
            if f.value.id == selfname and kind == "method" and clsname is not None:
                return (fn, kind, body), list(call.args), f.value
            if kind == "static" and (f.value.id == selfname or f.value.id[:1].isupper()):
                return (fn, kind, body), list(call.args), None
        return None

    def instantiate(h, args, recv, target, body_stmts):
        fn, kind, hbody = h
        params = [a.arg for a in fn.args.posonlyargs + fn.args.args]
        mapping = {}
        if kind == "method":
            mapping[params.pop(0)] = recv
        args = _pad_defaults(fn, params, args)
        if len(params) != len(args):
            return None
        _gen_counter[0] += 1
        k = _gen_counter[0]
        pre = []
        rename = {}
        params_all = list(params)
        stored = {n.id for n in ast.walk(fn) if isinstance(n, ast.Name) and isinstance(n.ctx, ast.Store)}
        # `yield v` of a helper local consumed as `for t in helper()`: let the helper's variable be the target
        ys = [n for n in ast.walk(fn) if isinstance(n, ast.Yield)]
        direct = None
        if isinstance(target, ast.Name) and len(ys) == 1 and isinstance(ys[0].value, ast.Name) and ys[0].value.id in stored \
                and ys[0].value.id not in params_all:
            allnames = {n.id for n in ast.walk(fn) if isinstance(n, ast.Name)} | set(params)
            if target.id == ys[0].value.id or target.id not in allnames:
                direct = ys[0].value.id
                rename[direct] = target.id
        for p, a in zip(params, args):
            if isinstance(a, (ast.Name, ast.Constant)) and p not in stored:
                mapping[p] = a
            else:
                tmp = "%s__gen%d" % (p, k)
                pre.append(ast.Assign(targets=[ast.Name(id=tmp, ctx=ast.Store())], value=a))
                rename[p] = tmp
        for v in stored:
            if v not in rename and v not in mapping:
                rename[v] = "%s__gen%d" % (v, k)
        new = [_Rename(mapping, rename).visit(copy.deepcopy(s)) for s in hbody]

        def repl(stmts):
            out = []
            for s in stmts:
                if isinstance(s, ast.Expr) and isinstance(s.value, ast.Yield):
                    if direct is None:
                        asg = ast.Assign(targets=[copy.deepcopy(target)], value=s.value.value)
                        ast.copy_location(asg, s)
                        out.append(asg)
                    out.extend(copy.deepcopy(body_stmts))
                    continue
                for field, blk in list(_blocks(s)):
                    if field != "handler":
                        setattr(s, field, repl(blk))
                out.append(s)
            return out
        return pre + repl(new)

    def as_genexp(h, args, recv):
        """helper `for a in X: [if c:] yield e` as a generator expression"""
        fn, kind, hbody = h
        if len(hbody) != 1 or not isinstance(hbody[0], ast.For) or hbody[0].orelse:
            return None
        loop = hbody[0]
        comps = []
        while True:
            ifs = []
            inner = loop.body
            while len(inner) == 1 and isinstance(inner[0], ast.If) and not inner[0].orelse:
                ifs.append(inner[0].test)
                inner = inner[0].body
            comps.append(ast.comprehension(target=loop.target, iter=loop.iter, ifs=ifs, is_async=0))
            if len(inner) == 1 and isinstance(inner[0], ast.For) and not inner[0].orelse:
                loop = inner[0]
                continue
            break
        if len(inner) != 1 or not (isinstance(inner[0], ast.Expr) and isinstance(inner[0].value, ast.Yield)):
            return None
        params = [a.arg for a in fn.args.posonlyargs + fn.args.args]
        mapping = {}
        if kind == "method":
            mapping[params.pop(0)] = recv
        args = _pad_defaults(fn, params, args)
        if len(params) != len(args):
            return None
        for p, a in zip(params, args):
            mapping[p] = a
        ge = ast.GeneratorExp(elt=inner[0].value.value, generators=comps)
        return _Rename(mapping, {}).visit(copy.deepcopy(ge))

    def body_ok(stmts):
        # break/continue of the consumer loop would act on the helper's loops after inlining
        for n in _walk_scope(stmts):
            if isinstance(n, (ast.Break, ast.Continue)):
                return False
        return True

    def rec(stmts, clsname, selfname):
        nonlocal n_done
        out = []
        for st in stmts:
            for field, blk in list(_blocks(st)):
                if field != "handler":
                    setattr(st, field, rec(blk, clsname, selfname))
            if isinstance(st, ast.Try):
                for h_ in st.handlers:
                    h_.body = rec(h_.body, clsname, selfname)
            if isinstance(st, ast.For) and isinstance(st.iter, ast.Call) and not st.orelse and body_ok(st.body):
                r = resolve(st.iter, clsname, selfname)
                if r is not None:
                    new = instantiate(r[0], r[1], r[2], st.target, st.body)
                    if new is not None:
                        for s in new:
                            ast.copy_location(s, st) if not hasattr(s, "lineno") else None
                            ast.fix_missing_locations(s)
                        out.extend(new)
                        used.add(r[0][0].name)
                        n_done += 1
                        continue
            # tuple(helper(...)) / list(...) / sorted(...) etc: expression position -> generator expression
            class T(ast.NodeTransformer):
                def visit_FunctionDef(self, n):
                    return n

                def visit_Call(self, n):
                    nonlocal n_done
                    self.generic_visit(n)
                    r = resolve(n, clsname, selfname)
                    if r is None:
                        return n
                    ge = as_genexp(r[0], r[1], r[2])
                    if ge is None:
                        return n
                    used.add(r[0][0].name)
                    n_done += 1
                    return ast.copy_location(ge, n)
            for field, val in ast.iter_fields(st):
                if isinstance(val, ast.expr):
                    setattr(st, field, T().visit(val))
            out.append(st)
        return out

    for st in tree.body:
        if isinstance(st, ast.FunctionDef) and id(st) not in own:
            st.body = rec(st.body, None, None)
        elif isinstance(st, ast.ClassDef):
            for m in st.body:
                if isinstance(m, ast.FunctionDef) and id(m) not in own:
                    selfname = None
                    decos = [d.id for d in m.decorator_list if isinstance(d, ast.Name)]
                    if "staticmethod" not in decos and m.args.args:
                        selfname = m.args.args[0].arg
                    m.body = rec(m.body, st.name, selfname)
    if n_done:
        ast.fix_missing_locations(tree)
    return n_done


def drop_unreferenced_gen_helpers(trees, allh, used):
    for name in used:
        cls, tree, fn, _k, _b = allh[name]
        inside = {id(x) for x in ast.walk(fn)}
        refs = 0
        for t in trees:
            for n in ast.walk(t):
                if id(n) in inside:
                    continue
                if isinstance(n, ast.Attribute) and n.attr == name or isinstance(n, ast.Name) and n.id == name:
                    refs += 1
        if refs:
            continue
        if cls is None:
            tree.body = [s for s in tree.body if s is not fn]
        else:
            for st in tree.body:
                if isinstance(st, ast.ClassDef) and st.name == cls:
                    st.body = [s for s in st.body if s is not fn] or [ast.Pass()]


def for_over_genexp(fn):
    """`for x in (e for y in S if c): B` -> `for y in S: if c: x = e; B` (B without break/continue)"""
    n_done = 0

    def rec(stmts):
        nonlocal n_done
        out = []
        for st in stmts:
            for field, blk in list(_blocks(st)):
                if field != "handler":
                    setattr(st, field, rec(blk))
            if isinstance(st, ast.Try):
                for h in st.handlers:
                    h.body = rec(h.body)
            if isinstance(st, ast.For) and isinstance(st.iter, ast.GeneratorExp) and len(st.iter.generators) == 1 and not st.orelse \
                    and not any(isinstance(n, (ast.Break, ast.Continue)) for n in _walk_scope(st.body)):
                g = st.iter.generators[0]
                ge = st.iter
                if isinstance(g.target, ast.Name) and not g.is_async:
                    body = list(st.body)
                    same = isinstance(ge.elt, ast.Name) and isinstance(st.target, ast.Name) and ge.elt.id == st.target.id \
                        and ge.elt.id == g.target.id
                    if not same:
                        asg = ast.Assign(targets=[st.target], value=ge.elt)
                        ast.copy_location(asg, st)
                        body = [asg] + body
                    for c in reversed(g.ifs):
                        iff = ast.If(test=c, body=body, orelse=[])
                        ast.copy_location(iff, st)
                        body = [iff]
                    new = ast.For(target=ast.Name(id=g.target.id, ctx=ast.Store()), iter=g.iter, body=body, orelse=[], type_comment=None)
                    ast.copy_location(new, st)
                    ast.fix_missing_locations(new)
                    out.append(new)
                    n_done += 1
                    continue
            out.append(st)
        return out
    fn.body = rec(fn.body)
    return n_done


# ---------------------------------------------------------------------------
# N7 constant dispatch tables
# ---------------------------------------------------------------------------
def desugar_dispatch(tree):
    """`v = TABLE.get(k[, default])` with TABLE a module- or class-level dict literal with constant keys that is bound
    once and never mutated -> `if k == K1: v = V1 elif k in (K2, K3): v = V2 else: v = default`.
    Function-valued entries of a class-level table become `Class.function` (marked as known callables)."""
    n_done = 0

    def table_of(assign_value, funcs, clsname):
        if not isinstance(assign_value, ast.Dict) or not assign_value.keys:
            return None
        out = []
        for k, v in zip(assign_value.keys, assign_value.values):
            if not (isinstance(k, ast.Constant) and isinstance(k.value, (str, int)) and not isinstance(k.value, bool)):
                return None
            if isinstance(v, ast.Constant):
                out.append((k, v))
            elif isinstance(v, ast.Name) and v.id in funcs:
                if clsname is not None:
                    ref = ast.Attribute(value=ast.Name(id=clsname, ctx=ast.Load()), attr=v.id, ctx=ast.Load())
                else:
                    ref = ast.Name(id=v.id, ctx=ast.Load())
                ref._known_callable = True
                out.append((k, ref))
            else:
                return None
        return out

    def scan(body, clsname):
        funcs = {s.name for s in body if isinstance(s, ast.FunctionDef)}
        tabs = {}
        for st in body:
            if isinstance(st, ast.Assign) and len(st.targets) == 1 and isinstance(st.targets[0], ast.Name):
                t = table_of(st.value, funcs, clsname)
                if t is not None:
                    tabs[st.targets[0].id] = t
        return tabs
    mod_tabs = scan(tree.body, None)
    cls_tabs = {}
    for st in tree.body:
        if isinstance(st, ast.ClassDef):
            for name, t in scan(st.body, st.name).items():
                cls_tabs[(st.name, name)] = t
    if not mod_tabs and not cls_tabs:
        return 0
    # a table that is stored to / mutated / passed around anywhere is left alone
    def uses_ok(name, is_attr):
        for n in ast.walk(tree):
            ref = None
            if is_attr and isinstance(n, ast.Attribute) and n.attr == name:
                ref = n
            elif not is_attr and isinstance(n, ast.Name) and n.id == name:
                ref = n
            if ref is None:
                continue
            if isinstance(ref.ctx, (ast.Store, ast.Del)):
                if is_attr:
                    return False
                continue  # the defining assignment (single, checked by the caller)
            ref._dispatch_ref = True
        return True
    for (cls, name) in list(cls_tabs):
        if not uses_ok(name, True):
            del cls_tabs[(cls, name)]
    for name in list(mod_tabs):
        stores = [n for n in ast.walk(tree) if isinstance(n, ast.Name) and n.id == name and isinstance(n.ctx, (ast.Store, ast.Del))]
        if len(stores) != 1 or not uses_ok(name, False):
            del mod_tabs[name]

    def lookup(call, clsname, selfname):
        f = call.func
        if not (isinstance(f, ast.Attribute) and f.attr == "get" and 1 <= len(call.args) <= 2 and not call.keywords):
            return None
        t = f.value
        if isinstance(t, ast.Name) and t.id in mod_tabs:
            return mod_tabs[t.id]
        if isinstance(t, ast.Attribute) and isinstance(t.value, ast.Name) and clsname is not None \
                and t.value.id in (clsname, selfname) and (clsname, t.attr) in cls_tabs:
            return cls_tabs[(clsname, t.attr)]
        return None

    def rec(stmts, clsname, selfname):
        nonlocal n_done
        out = []
        for st in stmts:
            for field, blk in list(_blocks(st)):
                if field != "handler":
                    setattr(st, field, rec(blk, clsname, selfname))
            if isinstance(st, ast.Try):
                for h in st.handlers:
                    h.body = rec(h.body, clsname, selfname)
            if isinstance(st, ast.Assign) and len(st.targets) == 1 and isinstance(st.targets[0], ast.Name) and isinstance(st.value, ast.Call):
                tab = lookup(st.value, clsname, selfname)
                key = st.value.args[0] if st.value.args else None
                if tab is not None and isinstance(key, ast.Name):
                    default = st.value.args[1] if len(st.value.args) == 2 else ast.Constant(value=None)
                    if isinstance(default, ast.Attribute) and isinstance(default.value, ast.Name) and default.value.id == clsname:
                        default._known_callable = True  # Class.method: a function of the class body
                    groups = []
                    for k, v in tab:
                        for g in groups:
                            if ast.dump(g[1]) == ast.dump(v):
                                g[0].append(k)
                                break
                        else:
                            groups.append(([k], v))
                    tgt = st.targets[0]

                    def asg(v):
                        vv = copy.deepcopy(v)
                        if getattr(v, "_known_callable", False):
                            vv._known_callable = True
                        a = ast.Assign(targets=[ast.Name(id=tgt.id, ctx=ast.Store())], value=vv)
                        return ast.copy_location(a, st)
                    chain = [asg(default)]
                    for ks, v in reversed(groups):
                        if len(ks) == 1:
                            test = ast.Compare(left=copy.deepcopy(key), ops=[ast.Eq()], comparators=[copy.deepcopy(ks[0])])
                        else:
                            test = ast.Compare(left=copy.deepcopy(key), ops=[ast.In()],
                                               comparators=[ast.Tuple(elts=[copy.deepcopy(k) for k in ks], ctx=ast.Load())])
                        iff = ast.If(test=test, body=[asg(v)], orelse=chain)
                        ast.copy_location(iff, st)
                        chain = [iff]
                    for c in chain:
                        ast.fix_missing_locations(c)
                    out.extend(chain)
                    n_done += 1
                    continue
            out.append(st)
        return out
    for st in tree.body:
        if isinstance(st, ast.FunctionDef):
            st.body = rec(st.body, None, None)
        elif isinstance(st, ast.ClassDef):
            for m in st.body:
                if isinstance(m, ast.FunctionDef):
                    decos = [d.id for d in m.decorator_list if isinstance(d, ast.Name)]
                    selfname = m.args.args[0].arg if "staticmethod" not in decos and m.args.args else None
                    m.body = rec(m.body, st.name, selfname)
    if n_done:
        # a table that is no longer read anywhere is dropped (so helpers only it referenced can go too)
        def still_read(name, is_attr):
            for n in ast.walk(tree):
                if is_attr and isinstance(n, ast.Attribute) and n.attr == name and isinstance(n.ctx, ast.Load):
                    return True
                if isinstance(n, ast.Name) and n.id == name and isinstance(n.ctx, ast.Load):
                    return True
            return False
        for name in list(mod_tabs):
            if not still_read(name, False):
                tree.body = [s for s in tree.body if not (isinstance(s, ast.Assign) and len(s.targets) == 1
                                                          and isinstance(s.targets[0], ast.Name) and s.targets[0].id == name)]
        for (cls, name) in list(cls_tabs):
            if not still_read(name, True):
                for st in tree.body:
                    if isinstance(st, ast.ClassDef) and st.name == cls:
                        st.body = [s for s in st.body if not (isinstance(s, ast.Assign) and len(s.targets) == 1
                                                              and isinstance(s.targets[0], ast.Name) and s.targets[0].id == name)] or [ast.Pass()]
    return n_done


# ---------------------------------------------------------------------------
# N0 negation normal form of tests
# ---------------------------------------------------------------------------
_FLIP = {ast.Is: ast.IsNot, ast.IsNot: ast.Is, ast.In: ast.NotIn, ast.NotIn: ast.In}


def _negate(e):
    """expression equivalent to `not e` with the negation pushed inwards, or None when `not e` is already simplest"""
    if isinstance(e, ast.UnaryOp) and isinstance(e.op, ast.Not):
        inner = e.operand
        if _is_boolish(inner):
            return _nnf(inner)  # not not <bool> == <bool>
        return None
    if isinstance(e, ast.BoolOp):
        vals = []
        for v in e.values:
            nv = _negate(v)
            vals.append(nv if nv is not None else ast.copy_location(ast.UnaryOp(op=ast.Not(), operand=_nnf(v)), v))
        return ast.copy_location(ast.BoolOp(op=ast.Or() if isinstance(e.op, ast.And) else ast.And(), values=vals), e)
    if isinstance(e, ast.Compare) and len(e.ops) == 1 and type(e.ops[0]) in _FLIP:
        return ast.copy_location(ast.Compare(left=e.left, ops=[_FLIP[type(e.ops[0])]()], comparators=e.comparators), e)
    return None


def _nnf(e):
    if isinstance(e, ast.UnaryOp) and isinstance(e.op, ast.Not):
        n = _negate(e.operand)
        if n is not None:
            return n
        return e
    if isinstance(e, ast.BoolOp):
        new = [_nnf(v) for v in e.values]
        if any(a is not b for a, b in zip(new, e.values)):
            return ast.copy_location(ast.BoolOp(op=e.op, values=new), e)
    return e


def nnf_tests(fn):
    n_done = 0
    for n in ast.walk(fn):
        if isinstance(n, (ast.If, ast.While, ast.IfExp)):
            new = _nnf(n.test)
            if new is not n.test:
                n.test = new
                n_done += 1
    return n_done


# ---------------------------------------------------------------------------
# N8 getattr with default on a name-mangled private field -> the optional-field idiom
# ---------------------------------------------------------------------------
import re as _re

_MANGLED = _re.compile(r"^_[A-Za-z][A-Za-z0-9]*__[A-Za-z_][A-Za-z0-9_]*$")


def desugar_getattr_default(tree):
    """`getattr(x, "_Cls__field", d)` -> `x._Cls__field if hasattr(x, "_Cls__field") else d` (x a plain name)"""
    n_done = 0

    class T(ast.NodeTransformer):
        def visit_Call(self, node):
            nonlocal n_done
            self.generic_visit(node)
            if isinstance(node.func, ast.Name) and node.func.id == "getattr" and len(node.args) == 3 and not node.keywords \
                    and isinstance(node.args[0], ast.Name) and isinstance(node.args[1], ast.Constant) \
                    and isinstance(node.args[1].value, str) and _MANGLED.match(node.args[1].value) \
                    and (isinstance(node.args[2], (ast.Constant, ast.Name))
                         or (isinstance(node.args[2], (ast.Tuple, ast.List)) and not node.args[2].elts)):
                x, name, d = node.args
                new = ast.IfExp(
                    test=ast.Call(func=ast.Name(id="hasattr", ctx=ast.Load()), args=[copy.deepcopy(x), copy.deepcopy(name)], keywords=[]),
                    body=ast.Attribute(value=copy.deepcopy(x), attr=name.value, ctx=ast.Load()),
                    orelse=d)
                n_done += 1
                return ast.copy_location(new, node)
            return node
    T().visit(tree)
    if n_done:
        ast.fix_missing_locations(tree)
    return n_done


def desugar_star_unpack(tree):
    """`head, *rest = seq` (seq a plain name) -> `head = seq[0]; rest = seq[1:]` (analysis only: for a list the values are
    the same; an empty sequence fails either way)"""
    n_done = 0
    for owner in ast.walk(tree):
        for field, blk in _blocks(owner) if not isinstance(owner, ast.Module) else [("body", owner.body)]:
            i = 0
            while i < len(blk):
                st = blk[i]
                if isinstance(st, ast.Assign) and len(st.targets) == 1 and isinstance(st.targets[0], (ast.Tuple, ast.List)) \
                        and len(st.targets[0].elts) == 2 and isinstance(st.targets[0].elts[0], ast.Name) \
                        and isinstance(st.targets[0].elts[1], ast.Starred) and isinstance(st.targets[0].elts[1].value, ast.Name) \
                        and isinstance(st.value, ast.Name):
                    h, r = st.targets[0].elts[0], st.targets[0].elts[1].value
                    a1 = ast.Assign(targets=[ast.Name(id=h.id, ctx=ast.Store())],
                                    value=ast.Subscript(value=ast.Name(id=st.value.id, ctx=ast.Load()), slice=ast.Constant(value=0), ctx=ast.Load()))
                    a2 = ast.Assign(targets=[ast.Name(id=r.id, ctx=ast.Store())],
                                    value=ast.Subscript(value=ast.Name(id=st.value.id, ctx=ast.Load()),
                                                        slice=ast.Slice(lower=ast.Constant(value=1), upper=None, step=None), ctx=ast.Load()))
                    for a in (a1, a2):
                        ast.copy_location(a, st)
                        ast.fix_missing_locations(a)
                    blk[i:i + 1] = [a1, a2]
                    n_done += 1
                    i += 2
                    continue
                i += 1
    return n_done


def resugar_or(tree):
    """`if v: t = v else: t = e`  /  `if not v: t = e else: t = v`  ->  `t = v or e` (v a plain name)"""
    n_done = 0
    for owner in ast.walk(tree):
        for field, blk in _blocks(owner) if not isinstance(owner, ast.Module) else [("body", owner.body)]:
            for i, st in enumerate(blk):
                if isinstance(st, ast.If) and len(st.body) == 1 and not st.orelse and isinstance(st.test, ast.UnaryOp) \
                        and isinstance(st.test.op, ast.Not) and isinstance(st.test.operand, ast.Name) \
                        and isinstance(st.body[0], ast.Assign) and len(st.body[0].targets) == 1 \
                        and isinstance(st.body[0].targets[0], ast.Name) and st.body[0].targets[0].id == st.test.operand.id:
                    # `if not t: t = e`  ->  `t = t or e`
                    name = st.test.operand.id
                    first = ast.Name(id=name, ctx=ast.Load())
                    prev = blk[i - 1] if i > 0 else None
                    merge = isinstance(prev, ast.Assign) and len(prev.targets) == 1 and isinstance(prev.targets[0], ast.Name) \
                        and prev.targets[0].id == name and name not in _names_loaded(prev.value)
                    if merge:
                        first = prev.value  # `t = a; if not t: t = e`  ->  `t = a or e`
                    new = ast.Assign(targets=[ast.Name(id=name, ctx=ast.Store())],
                                     value=ast.BoolOp(op=ast.Or(), values=[first, st.body[0].value]))
                    ast.copy_location(new, st)
                    ast.fix_missing_locations(new)
                    blk[i] = new
                    if merge:
                        blk[i - 1] = ast.copy_location(ast.Pass(), prev)
                    n_done += 1
                    continue
                if not (isinstance(st, ast.If) and len(st.body) == 1 and len(st.orelse) == 1):
                    continue
                test, a, b = st.test, st.body[0], st.orelse[0]
                if isinstance(test, ast.UnaryOp) and isinstance(test.op, ast.Not):
                    test, a, b = test.operand, b, a
                simple = isinstance(test, ast.Name) or (isinstance(test, ast.Attribute) and isinstance(test.value, ast.Name))
                if not (simple and all(isinstance(x, ast.Assign) and len(x.targets) == 1
                                       and isinstance(x.targets[0], ast.Name) for x in (a, b))):
                    continue
                if a.targets[0].id != b.targets[0].id or ast.dump(a.value) != ast.dump(test):
                    continue
                new = ast.Assign(targets=[ast.Name(id=a.targets[0].id, ctx=ast.Store())],
                                 value=ast.BoolOp(op=ast.Or(), values=[copy.deepcopy(test), b.value]))
                ast.copy_location(new, st)
                ast.fix_missing_locations(new)
                blk[i] = new
                n_done += 1
            if n_done and any(isinstance(x, ast.Pass) for x in blk) and len(blk) > 1:
                kept = [x for x in blk if not isinstance(x, ast.Pass)]
                if kept:
                    blk[:] = kept
    return n_done


def desugar_chain_from_iterable(fn):
    """`chain.from_iterable(E for x in S)` -> `(item for x in S for item in E)` (one generator, same laziness and order)"""
    n_done = 0

    class T(ast.NodeTransformer):
        def visit_Call(self, node):
            nonlocal n_done
            self.generic_visit(node)
            f = node.func
            if isinstance(f, ast.Attribute) and f.attr == "from_iterable" and len(node.args) == 1 and not node.keywords \
                    and (norm_name(f.value) in ("chain", "itertools.chain")) and isinstance(node.args[0], (ast.GeneratorExp, ast.ListComp)):
                ge = node.args[0]
                n_done += 1
                item = ast.Name(id="item__chain%d" % n_done, ctx=ast.Load())
                new = ast.GeneratorExp(elt=item, generators=list(ge.generators) + [
                    ast.comprehension(target=ast.Name(id=item.id, ctx=ast.Store()), iter=ge.elt, ifs=[], is_async=0)])
                return ast.copy_location(new, node)
            return node
    T().visit(fn)
    if n_done:
        ast.fix_missing_locations(fn)
    return n_done


def norm_name(e):
    if isinstance(e, ast.Name):
        return e.id
    if isinstance(e, ast.Attribute):
        return "%s.%s" % (norm_name(e.value), e.attr)
    return "?"


def desugar_attrgetter(tree):
    """module-level `g = attrgetter("name")` (bound once) and calls `g(e)`  ->  `e.name`; also `attrgetter("name")(e)`"""
    getters = {}
    for st in tree.body:
        if isinstance(st, ast.Assign) and len(st.targets) == 1 and isinstance(st.targets[0], ast.Name) and isinstance(st.value, ast.Call) \
                and norm_name(st.value.func) in ("attrgetter", "operator.attrgetter") and len(st.value.args) == 1 and not st.value.keywords \
                and isinstance(st.value.args[0], ast.Constant) and isinstance(st.value.args[0].value, str) \
                and st.value.args[0].value.isidentifier():
            getters[st.targets[0].id] = st.value.args[0].value
    for name in list(getters):
        stores = [n for n in ast.walk(tree) if isinstance(n, ast.Name) and n.id == name and isinstance(n.ctx, (ast.Store, ast.Del))]
        if len(stores) != 1:
            del getters[name]
    n_done = 0

    class T(ast.NodeTransformer):
        def visit_Call(self, node):
            nonlocal n_done
            self.generic_visit(node)
            f = node.func
            attr = None
            if isinstance(f, ast.Name) and f.id in getters:
                attr = getters[f.id]
            elif isinstance(f, ast.Call) and norm_name(f.func) in ("attrgetter", "operator.attrgetter") and len(f.args) == 1 \
                    and isinstance(f.args[0], ast.Constant) and isinstance(f.args[0].value, str) and f.args[0].value.isidentifier():
                attr = f.args[0].value
            if attr is not None and len(node.args) == 1 and not node.keywords and not isinstance(node.args[0], ast.Starred):
                n_done += 1
                return ast.copy_location(ast.Attribute(value=node.args[0], attr=attr, ctx=ast.Load()), node)
            return node
    T().visit(tree)
    if n_done:
        ast.fix_missing_locations(tree)
    return n_done


def desugar_next_iter(fn):
    """`next(iter(x), d)` (x a plain name)  ->  `x[0] if x else d` (first element of a sequence or the default)"""
    n_done = 0

    class T(ast.NodeTransformer):
        def visit_Call(self, node):
            nonlocal n_done
            self.generic_visit(node)
            if isinstance(node.func, ast.Name) and node.func.id == "next" and len(node.args) == 2 and not node.keywords \
                    and isinstance(node.args[0], ast.Call) and isinstance(node.args[0].func, ast.Name) and node.args[0].func.id == "iter" \
                    and len(node.args[0].args) == 1 and isinstance(node.args[0].args[0], ast.Name):
                x = node.args[0].args[0]
                n_done += 1
                new = ast.IfExp(test=ast.Name(id=x.id, ctx=ast.Load()),
                                body=ast.Subscript(value=ast.Name(id=x.id, ctx=ast.Load()), slice=ast.Constant(value=0), ctx=ast.Load()),
                                orelse=node.args[1])
                return ast.copy_location(new, node)
            return node
    T().visit(fn)
    if n_done:
        ast.fix_missing_locations(fn)
    return n_done


def strip_annotations(tree):
    """annotations are not evaluated as part of the behaviour the rules reason about: parameter/return annotations are
    dropped, `x: T = v` becomes `x = v`, a bare `x: T` disappears"""
    n_done = 0
    for n in ast.walk(tree):
        if isinstance(n, (ast.FunctionDef, ast.AsyncFunctionDef)):
            if n.returns is not None:
                n.returns = None
                n_done += 1
            a = n.args
            for arg in a.posonlyargs + a.args + a.kwonlyargs + ([a.vararg] if a.vararg else []) + ([a.kwarg] if a.kwarg else []):
                if arg.annotation is not None:
                    arg.annotation = None
                    n_done += 1
        for field in ("body", "orelse", "finalbody"):
            blk = getattr(n, field, None)
            if isinstance(blk, list) and blk and isinstance(blk[0], ast.stmt):
                new = []
                for st in blk:
                    if isinstance(st, ast.AnnAssign):
                        n_done += 1
                        if st.value is None:
                            continue
                        asg = ast.Assign(targets=[st.target], value=st.value)
                        new.append(ast.copy_location(asg, st))
                    else:
                        new.append(st)
                if not new and field == "body":
                    new = [ast.copy_location(ast.Pass(), blk[0])]
                setattr(n, field, new)
        if isinstance(n, ast.Try):
            for h in n.handlers:
                new = []
                for st in h.body:
                    if isinstance(st, ast.AnnAssign):
                        n_done += 1
                        if st.value is not None:
                            new.append(ast.copy_location(ast.Assign(targets=[st.target], value=st.value), st))
                    else:
                        new.append(st)
                h.body = new or [ast.copy_location(ast.Pass(), n)]
    if n_done:
        ast.fix_missing_locations(tree)
    return n_done


def inline_module_string_constants(tree):
    """private module-level names bound exactly once to a string or a tuple of strings (named "magic strings") are
    replaced by the constant at their uses inside functions"""
    consts = {}
    for st in tree.body:
        if isinstance(st, ast.Assign) and len(st.targets) == 1 and isinstance(st.targets[0], ast.Name) and st.targets[0].id.startswith("_") \
                and not st.targets[0].id.startswith("__"):
            v = st.value
            if isinstance(v, ast.Constant) and isinstance(v.value, str):
                consts[st.targets[0].id] = v
            elif isinstance(v, ast.Tuple) and v.elts and all(isinstance(e, ast.Constant) and isinstance(e.value, str) for e in v.elts):
                consts[st.targets[0].id] = v
    for name in list(consts):
        stores = [n for n in ast.walk(tree) if isinstance(n, ast.Name) and n.id == name and isinstance(n.ctx, (ast.Store, ast.Del))]
        shadow = [n for n in ast.walk(tree) if isinstance(n, ast.arg) and n.arg == name]
        if len(stores) != 1 or shadow:
            del consts[name]
    if not consts:
        return 0
    n_done = 0

    class T(ast.NodeTransformer):
        def visit_Name(self, node):
            nonlocal n_done
            if isinstance(node.ctx, ast.Load) and node.id in consts:
                n_done += 1
                return ast.copy_location(copy.deepcopy(consts[node.id]), node)
            return node
    for fn in [x for x in ast.walk(tree) if isinstance(x, (ast.FunctionDef, ast.AsyncFunctionDef))]:
        fn.body = [T().visit(st) for st in fn.body]
    if n_done:
        ast.fix_missing_locations(tree)
    return n_done


def desugar_yield_from_genexp(fn):
    """`yield from (e for x in s if c)`  ->  `for x in s: if c: yield e` (statement position)"""
    n_done = 0

    def rec(stmts):
        nonlocal n_done
        out = []
        for st in stmts:
            for field, blk in list(_blocks(st)):
                if field != "handler":
                    setattr(st, field, rec(blk))
            if isinstance(st, ast.Try):
                for h in st.handlers:
                    h.body = rec(h.body)
            if isinstance(st, ast.Expr) and isinstance(st.value, ast.YieldFrom) and isinstance(st.value.value, ast.GeneratorExp) \
                    and len(st.value.value.generators) == 1 and not st.value.value.generators[0].is_async:
                ge = st.value.value
                g = ge.generators[0]
                body = [ast.Expr(value=ast.Yield(value=ge.elt))]
                for c in reversed(g.ifs):
                    body = [ast.If(test=c, body=body, orelse=[])]
                new = ast.For(target=g.target, iter=g.iter, body=body, orelse=[], type_comment=None)
                ast.copy_location(new, st)
                for x in ast.walk(new):
                    if not hasattr(x, "lineno") and isinstance(x, (ast.stmt, ast.expr)):
                        ast.copy_location(x, st)
                ast.fix_missing_locations(new)
                # the target is a Store in the loop header
                for x in ast.walk(new.target):
                    if isinstance(x, ast.Name):
                        x.ctx = ast.Store()
                out.append(new)
                n_done += 1
                continue
            out.append(st)
        return out
    fn.body = rec(fn.body)
    return n_done


def drop_pass_branch(fn):
    """`if c: pass else: B`  ->  `if not c: B`"""
    n_done = 0
    for n in ast.walk(fn):
        if isinstance(n, ast.If) and n.orelse and len(n.body) == 1 and isinstance(n.body[0], ast.Pass):
            n.test = ast.copy_location(ast.UnaryOp(op=ast.Not(), operand=n.test), n.test)
            n.body, n.orelse = n.orelse, []
            n_done += 1
    return n_done


def _first_evaluated(e):
    """the first leaf expression evaluated when ``e`` is evaluated (None if unsure)"""
    while True:
        if isinstance(e, (ast.Name, ast.Constant)):
            return e
        if isinstance(e, ast.Attribute):
            e = e.value
        elif isinstance(e, ast.Call):
            e = e.func
            # a call evaluates its callee first; a bare builtin name callee is a leaf that is not a local temporary
            if isinstance(e, ast.Name):
                return e
        elif isinstance(e, ast.Subscript):
            e = e.value
        elif isinstance(e, ast.BinOp):
            e = e.left
        elif isinstance(e, ast.UnaryOp):
            e = e.operand
        elif isinstance(e, ast.BoolOp):
            e = e.values[0]
        elif isinstance(e, ast.Compare):
            e = e.left
        elif isinstance(e, ast.IfExp):
            e = e.test
        elif isinstance(e, (ast.Tuple, ast.List)) and e.elts:
            e = e.elts[0]
        elif isinstance(e, (ast.GeneratorExp, ast.ListComp, ast.SetComp)):
            e = e.generators[0].iter
        else:
            return None


def _first_evaluated_arg(e, name):
    """True if the single use of ``name`` inside ``e`` is evaluated before anything that could have an effect"""
    if isinstance(e, ast.Name):
        return e.id == name
    if isinstance(e, ast.Call) and isinstance(e.func, ast.Name) and e.args and not any(isinstance(a, ast.Starred) for a in e.args):
        # builtin-style call f(<first arg>, ...): the callee name is looked up, then the first argument is evaluated
        return e.func.id != name and _first_evaluated_arg(e.args[0], name)
    if isinstance(e, ast.Call) and isinstance(e.func, ast.Attribute) and isinstance(e.func.value, ast.Name) and e.func.value.id != name \
            and e.args and not any(isinstance(a, ast.Starred) for a in e.args) and e.func.value.id in ("chain", "itertools"):
        return _first_evaluated_arg(e.args[0], name)
    if isinstance(e, ast.UnaryOp):
        return _first_evaluated_arg(e.operand, name)
    if isinstance(e, (ast.GeneratorExp, ast.ListComp, ast.SetComp)):
        return _first_evaluated_arg(e.generators[0].iter, name)
    if isinstance(e, ast.Attribute):
        return _first_evaluated_arg(e.value, name)
    if isinstance(e, ast.Subscript):
        return _first_evaluated_arg(e.value, name)
    if isinstance(e, ast.BinOp):
        return _first_evaluated_arg(e.left, name)
    if isinstance(e, ast.Compare):
        return _first_evaluated_arg(e.left, name)
    if isinstance(e, ast.BoolOp):
        return _first_evaluated_arg(e.values[0], name)
    if isinstance(e, ast.IfExp):
        return _first_evaluated_arg(e.test, name)
    if isinstance(e, (ast.Tuple, ast.List)) and e.elts:
        return _first_evaluated_arg(e.elts[0], name)
    return False


def inline_adjacent_temporaries(fn):
    """`t = E` immediately followed by the statement that holds the only use of `t`, where that use is the first thing the
    statement evaluates: substitute E for t (a named intermediate result; evaluation order is unchanged)"""
    scope = _Scope(fn)
    loads = {}
    for n in _walk_scope(fn.body):
        if isinstance(n, ast.Name) and isinstance(n.ctx, ast.Load):
            loads[n.id] = loads.get(n.id, 0) + 1
    n_done = 0

    def header_expr(st):
        if isinstance(st, (ast.Return, ast.Expr)) and st.value is not None:
            return st.value
        if isinstance(st, ast.Assign):
            return st.value
        if isinstance(st, (ast.If, ast.While)):
            return st.test
        if isinstance(st, ast.For):
            return st.iter
        if isinstance(st, ast.Raise) and st.exc is not None:
            return st.exc
        return None

    def rec(stmts):
        nonlocal n_done
        for st in stmts:
            for field, blk in list(_blocks(st)):
                rec(blk)
        i = 0
        while i + 1 < len(stmts):
            a, b = stmts[i], stmts[i + 1]
            if isinstance(a, ast.Assign) and len(a.targets) == 1 and isinstance(a.targets[0], ast.Name):
                name = a.targets[0].id
                if len(scope.plain.get(name, ())) == 1 and scope.only_plain(name) and loads.get(name, 0) == 1 \
                        and isinstance(a.value, (ast.Call, ast.GeneratorExp, ast.ListComp)) \
                        and not _contains(a, (ast.Yield, ast.YieldFrom, ast.Await)):
                    hx = header_expr(b)
                    if hx is not None and _first_evaluated_arg(hx, name) \
                            and sum(1 for x in ast.walk(hx) if isinstance(x, ast.Name) and x.id == name) == 1:
                        class R(ast.NodeTransformer):
                            def visit_Name(self, node):
                                if node.id == name and isinstance(node.ctx, ast.Load):
                                    return ast.copy_location(a.value, node)
                                return node
                        for fld in ("value", "test", "iter", "exc"):
                            if getattr(b, fld, None) is hx:
                                setattr(b, fld, R().visit(hx))
                        del stmts[i]
                        n_done += 1
                        i = max(i - 1, 0)
                        continue
            i += 1
    rec(fn.body)
    if n_done:
        ast.fix_missing_locations(fn)
    return n_done


# ---------------------------------------------------------------------------
def lift_closure_factories(tree):
    """`def _f(a, b): def g(x): BODY; return g` with call sites `_f(u, v)` (u, v plain names / constants)
        ->  `def _f__lifted(x, a, b): BODY`  and  `lambda x: _f__lifted(x, u, v)` at the call sites.
    The closure object and the lambda compute the same function of x as long as u, v are not rebound between the
    creation and the calls; call sites whose arguments are names stored more than once in their function are left
    alone (and then the factory stays).  Module-level private factories only.  -> names lifted"""
    done = []
    for fn in [s_ for s_ in tree.body if isinstance(s_, ast.FunctionDef)]:
        if not fn.name.startswith("_") or fn.name.endswith("__") or fn.decorator_list:
            continue
        a = fn.args
        if a.vararg or a.kwarg or a.kwonlyargs or a.defaults or a.posonlyargs:
            continue
        body = [s_ for s_ in fn.body if not (isinstance(s_, ast.Expr) and isinstance(s_.value, ast.Constant))]
        if len(body) != 2 or not isinstance(body[0], ast.FunctionDef) or not isinstance(body[1], ast.Return) \
                or not (isinstance(body[1].value, ast.Name) and body[1].value.id == body[0].name):
            continue
        inner = body[0]
        ia = inner.args
        if ia.vararg or ia.kwarg or ia.kwonlyargs or ia.defaults or ia.posonlyargs or inner.decorator_list:
            continue
        outer_params = [x.arg for x in a.args]
        inner_params = [x.arg for x in ia.args]
        if set(outer_params) & set(inner_params):
            continue
        stored = {n.id for n in ast.walk(inner) if isinstance(n, ast.Name) and isinstance(n.ctx, (ast.Store, ast.Del))}
        if stored & set(outer_params) or any(isinstance(n, (ast.Nonlocal, ast.Global, ast.Yield, ast.YieldFrom)) for n in ast.walk(inner)):
            continue
        if any(isinstance(n, ast.Name) and n.id in (inner.name, fn.name) for b_ in inner.body for n in ast.walk(b_)):
            continue
        # every reference to the factory is a direct call with simple, stable arguments
        sites, ok = [], True
        inside = {id(x) for x in ast.walk(fn)}
        for holder in ast.walk(tree):
            if not isinstance(holder, (ast.FunctionDef, ast.Lambda)) or id(holder) in inside:
                continue
            multi = {}
            for n in ast.walk(holder):
                if isinstance(n, ast.Name) and isinstance(n.ctx, ast.Store):
                    multi[n.id] = multi.get(n.id, 0) + 1
            for n in ast.walk(holder):
                if isinstance(n, ast.Call) and isinstance(n.func, ast.Name) and n.func.id == fn.name:
                    if n.keywords or len(n.args) != len(outer_params):
                        ok = False
                    for x in n.args:
                        if isinstance(x, ast.Constant):
                            continue
                        if isinstance(x, ast.Name) and multi.get(x.id, 0) == 0:
                            continue  # a parameter / free name that the function never rebinds
                        ok = False
                    sites.append(n)
        refs = [n for n in ast.walk(tree) if isinstance(n, ast.Name) and n.id == fn.name and id(n) not in inside]
        if not ok or not sites or len(refs) != len({id(s_.func) for s_ in sites}):
            continue
        new_name = fn.name + "__lifted"
        lifted = ast.FunctionDef(name=new_name, args=ast.arguments(posonlyargs=[], args=[ast.arg(arg=x) for x in inner_params + outer_params],
                                                                     vararg=None, kwonlyargs=[], kw_defaults=[], kwarg=None, defaults=[]),
                                 body=inner.body, decorator_list=[], returns=None, type_comment=None)
        try:
            lifted.type_params = []
        except Exception:
            pass
        ast.copy_location(lifted, fn)
        tree.body[tree.body.index(fn)] = lifted

        class R(ast.NodeTransformer):
            def visit_Call(self, n):
                self.generic_visit(n)
                if any(n is s_ for s_ in sites):
                    lam = ast.Lambda(args=ast.arguments(posonlyargs=[], args=[ast.arg(arg=x) for x in inner_params], vararg=None, kwonlyargs=[],
                                                        kw_defaults=[], kwarg=None, defaults=[]),
                                     body=ast.Call(func=ast.Name(id=new_name, ctx=ast.Load()),
                                                   args=[ast.Name(id=x, ctx=ast.Load()) for x in inner_params] + list(n.args), keywords=[]))
                    return ast.copy_location(lam, n)
                return n
        R().visit(tree)
        ast.fix_missing_locations(tree)
        done.append(fn.name)
    return done


def normalize_module(tree, property_names=None):
    """in place; -> dict of counters (generator helpers are inlined program-wide before this); property_names: attribute
    names that are properties of the package (None: attribute reads are never moved)"""
    stats = {}
    k = strip_annotations(tree)
    if k:
        stats["annotations_stripped"] = k
    k = inline_module_string_constants(tree)
    if k:
        stats["module_string_constants"] = k
    k = desugar_attrgetter(tree)
    if k:
        stats["attrgetter"] = k
    k = desugar_getattr_default(tree)
    if k:
        stats["getattr_default"] = k
    k = resugar_or(tree)
    if k:
        stats["or_resugared"] = k
    k = desugar_star_unpack(tree)
    if k:
        stats["star_unpack"] = k
    k = desugar_dispatch(tree)
    if k:
        stats["dispatch_tables"] = k
    for fn in [x for x in ast.walk(tree) if isinstance(x, ast.FunctionDef)]:
        k = desugar_yield_from_genexp(fn)
        if k:
            stats["yield_from_genexp"] = stats.get("yield_from_genexp", 0) + k
        k = drop_pass_branch(fn)
        if k:
            stats["pass_branches"] = stats.get("pass_branches", 0) + k
        k = desugar_next_iter(fn)
        if k:
            stats["next_iter"] = stats.get("next_iter", 0) + k
        k = inline_adjacent_temporaries(fn)
        if k:
            stats["adjacent_temporaries"] = stats.get("adjacent_temporaries", 0) + k
        k = desugar_chain_from_iterable(fn)
        if k:
            stats["chain_from_iterable"] = stats.get("chain_from_iterable", 0) + k
        k = for_over_genexp(fn)
        if k:
            stats["for_over_genexp"] = stats.get("for_over_genexp", 0) + k
        k = subst_bool_temps(fn, property_names)
        if k:
            stats["bool_temporaries"] = stats.get("bool_temporaries", 0) + k
        k = nnf_tests(fn)
        if k:
            stats["tests_nnf"] = stats.get("tests_nnf", 0) + k
        t = _Threader(fn)
        k = t.run()
        if k:
            stats["flags_threaded"] = stats.get("flags_threaded", 0) + k
        k = resugar_for(fn)
        if k:
            stats["for_resugared"] = stats.get("for_resugared", 0) + k
    if stats:
        ast.fix_missing_locations(tree)
    return stats
